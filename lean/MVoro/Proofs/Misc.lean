/-
Miscellaneous small properties:
* `MVoro.GridProofs`      (C10/C05) the position → grid map is monotone and stays inside `[0, 2^52)`;
* `MVoro.InSphereProofs`  (C10/C03/C05) the exact in-sphere determinant is alternating, ties are decided consistently;
* `MVoro.SchedProofs`     (C09) results of the parallel loops do not depend on the schedule;
* `MVoro.TypeStateProofs` (C15) unchecked reads of the face data never hit `None`; `with_faces` is rejected for 1D/2D.
-/
import MVoro.Model.Grid
import MVoro.Model.Sched
import MVoro.Model.TypeState
import MVoro.Model.InSphere
import Mathlib.Tactic.Ring
import Mathlib.Tactic.Linarith
import Mathlib.Tactic.Positivity
import Mathlib.Tactic.NormNum
import Mathlib.Tactic.FieldSimp
import Mathlib.Algebra.Order.Field.Rat
import Mathlib.Data.List.Perm.Basic

set_option linter.unusedSimpArgs false
set_option linter.unusedVariables false

/-! ## A. the integer grid -/
namespace MVoro.GridProofs

open MVoro.Grid

/-- A1 (repaired parameters pad = 3/2, span = 4): every queried position maps into `[9/8, 15/8]`. -/
theorem rescale_range_fixed (A W x : Rat) (hW : 0 < W) (hlo : A - W ≤ x) (hhi : x ≤ A + 2 * W) :
    9 / 8 ≤ rescaleExact (3 / 2) 4 A W x ∧ rescaleExact (3 / 2) 4 A W x ≤ 15 / 8 := by
  have hW0 : W ≠ 0 := ne_of_gt hW
  have h1 : rescaleExact (3 / 2) 4 A W x = 9 / 8 + (x - (A - W)) / (4 * W) := by
    unfold rescaleExact; field_simp; ring
  have h2 : rescaleExact (3 / 2) 4 A W x = 15 / 8 - (A + 2 * W - x) / (4 * W) := by
    unfold rescaleExact; field_simp; ring
  have p1 : 0 ≤ (x - (A - W)) / (4 * W) := div_nonneg (by linarith) (by linarith)
  have p2 : 0 ≤ (A + 2 * W - x) / (4 * W) := div_nonneg (by linarith) (by linarith)
  constructor
  · rw [h1]; linarith
  · rw [h2]; linarith

/-- A2 (pinned tree pad = 1, span = 3): the mirror image through the upper wall of a generator on the
lower wall maps exactly to `2`, outside `[1, 2)` — witness of the defect. -/
theorem rescale_hits_two_pinned (A W : Rat) (hW : 0 < W) :
    rescaleExact 1 3 A W (mirrorHigh A W A) = 2 := by
  have hW0 : W ≠ 0 := ne_of_gt hW
  unfold rescaleExact mirrorHigh; field_simp; ring

/-- A2' (pinned tree): on the half-open interval `[A - W, A + 2W)` the value stays in `[1, 2)`, so only the
closed upper end fails. -/
theorem rescale_range_pinned (A W x : Rat) (hW : 0 < W) (hlo : A - W ≤ x) (hhi : x < A + 2 * W) :
    1 ≤ rescaleExact 1 3 A W x ∧ rescaleExact 1 3 A W x < 2 := by
  have hW0 : W ≠ 0 := ne_of_gt hW
  have h1 : rescaleExact 1 3 A W x = 1 + (x - (A - W)) / (3 * W) := by
    unfold rescaleExact; field_simp
  have h2 : rescaleExact 1 3 A W x = 2 - (A + 2 * W - x) / (3 * W) := by
    unfold rescaleExact; field_simp; ring
  have p1 : 0 ≤ (x - (A - W)) / (3 * W) := div_nonneg (by linarith) (by linarith)
  have p2 : 0 < (A + 2 * W - x) / (3 * W) := div_pos (by linarith) (by linarith)
  constructor
  · rw [h1]; linarith
  · rw [h2]; linarith

/-- A3: the generator's mirror images through both walls, and any position in the box, lie in `[A - W, A + 2W]`. -/
theorem queried_positions (A W g p : Rat) (hW : 0 < W) (hg : A ≤ g ∧ g ≤ A + W) (hp : A ≤ p ∧ p ≤ A + W) :
    (A - W ≤ mirrorLow A g ∧ mirrorLow A g ≤ A) ∧
    (A + W ≤ mirrorHigh A W g ∧ mirrorHigh A W g ≤ A + 2 * W) ∧
    (A - W ≤ p ∧ p ≤ A + 2 * W) := by
  obtain ⟨hg1, hg2⟩ := hg
  obtain ⟨hp1, hp2⟩ := hp
  unfold mirrorLow mirrorHigh
  refine ⟨⟨?_, ?_⟩, ⟨?_, ?_⟩, ⟨?_, ?_⟩⟩ <;> linarith

/-- A3 (periodic axis): the tripled box contains all 27-image positions, and the generators occupy its middle third. -/
theorem tripled_contains_images (a w q g : Rat) (k : Int) (hw : 0 < w)
    (hq : a ≤ q ∧ q ≤ a + w) (hk : k = -1 ∨ k = 0 ∨ k = 1) (hg : a ≤ g ∧ g ≤ a + w) :
    ((tripled a w true).1 ≤ q + k * w ∧ q + k * w ≤ (tripled a w true).1 + (tripled a w true).2) ∧
    ((tripled a w true).1 + (tripled a w true).2 / 3 ≤ g ∧
      g ≤ (tripled a w true).1 + 2 * (tripled a w true).2 / 3) := by
  obtain ⟨hq1, hq2⟩ := hq
  obtain ⟨hg1, hg2⟩ := hg
  have ht : tripled a w true = (a - w, 3 * w) := by simp [tripled]
  rw [ht]
  simp only
  rcases hk with rfl | rfl | rfl
  · refine ⟨⟨?_, ?_⟩, ⟨?_, ?_⟩⟩ <;> push_cast <;> linarith
  · refine ⟨⟨?_, ?_⟩, ⟨?_, ?_⟩⟩ <;> push_cast <;> linarith
  · refine ⟨⟨?_, ?_⟩, ⟨?_, ?_⟩⟩ <;> push_cast <;> linarith

/-- A4: an evaluation error of at most `1/16` keeps a value of `[9/8, 15/8]` inside `[1, 2)`. -/
theorem rescale_margin (r r' : Rat) (hr : 9 / 8 ≤ r ∧ r ≤ 15 / 8) (he : |r' - r| ≤ 1 / 16) :
    1 ≤ r' ∧ r' < 2 := by
  obtain ⟨h1, h2⟩ := hr
  obtain ⟨e1, e2⟩ := abs_le.mp he
  constructor <;> linarith

/-- A5: with any monotone rounding and a non-negative stored inverse width, the rounded map is monotone. -/
theorem rescaleWith_mono (rnd : Rat → Rat) (hrnd : ∀ a b, a ≤ b → rnd a ≤ rnd b)
    (anchor' iw x y : Rat) (hiw : 0 ≤ iw) (hxy : x ≤ y) :
    rescaleWith rnd anchor' iw x ≤ rescaleWith rnd anchor' iw y := by
  unfold rescaleWith
  apply hrnd
  have h1 : rnd (x - anchor') ≤ rnd (y - anchor') := hrnd _ _ (by linarith)
  have h2 : rnd (x - anchor') * iw ≤ rnd (y - anchor') * iw := mul_le_mul_of_nonneg_right h1 hiw
  have h3 := hrnd _ _ h2
  linarith

/-- A6: for `1 ≤ y < 2` the mantissa lies in `[0, 2^52)`, and the mantissa is monotone. -/
theorem mantissa_range_mono (y y' : Rat) (hy : 1 ≤ y ∧ y < 2) :
    (0 ≤ mantissa y ∧ mantissa y < 2 ^ 52) ∧ (y ≤ y' → mantissa y ≤ mantissa y') := by
  obtain ⟨h1, h2⟩ := hy
  unfold mantissa
  have hc : ((2 ^ 52 : Nat) : Rat) = 2 ^ 52 := by push_cast; rfl
  rw [hc]
  have hp : (0 : Rat) < 2 ^ 52 := by positivity
  refine ⟨⟨?_, ?_⟩, ?_⟩
  · exact mul_nonneg (by linarith) hp.le
  · nlinarith
  · intro h; exact mul_le_mul_of_nonneg_right (by linarith) hp.le

/-- composition: with the repaired parameters, every queried position, evaluated with an error of at most
`1/16`, has a mantissa in `[0, 2^52)`. -/
theorem grid_in_range_fixed (A W x r' : Rat) (hW : 0 < W) (hlo : A - W ≤ x) (hhi : x ≤ A + 2 * W)
    (he : |r' - rescaleExact (3 / 2) 4 A W x| ≤ 1 / 16) :
    0 ≤ mantissa r' ∧ mantissa r' < 2 ^ 52 :=
  (mantissa_range_mono r' r' (rescale_margin _ r' (rescale_range_fixed A W x hW hlo hhi) he)).1

/-- A7 (shared grid scale `G ≥ W`, repaired parameters): every queried position maps into `(1, 15/8]`;
more precisely at least `W/(8G)` above 1. -/
theorem rescaleG_range_fixed (A W G x : Rat) (hW : 0 < W) (hG : W ≤ G) (hlo : A - W ≤ x) (hhi : x ≤ A + 2 * W) :
    1 + W / (8 * G) ≤ rescaleExactG (3 / 2) 4 A W G x ∧ rescaleExactG (3 / 2) 4 A W G x ≤ 15 / 8 := by
  have hG0 : 0 < G := lt_of_lt_of_le hW hG
  have key : rescaleExactG (3 / 2) 4 A W G x = 1 + (x - A + 3 / 2 * W) / (4 * G) := by
    unfold rescaleExactG; field_simp; ring
  rw [key]
  constructor
  · have : W / (8 * G) ≤ (x - A + 3 / 2 * W) / (4 * G) := by
      rw [div_le_div_iff₀ (by positivity) (by positivity)]
      nlinarith
    linarith
  · have h1 : (x - A + 3 / 2 * W) / (4 * G) ≤ (7 / 2 * W) / (4 * G) := by
      apply div_le_div_of_nonneg_right _ (by positivity : (0 : Rat) ≤ 4 * G); linarith
    have h2 : (7 / 2 * W) / (4 * G) ≤ 7 / 8 := by
      rw [div_le_iff₀ (by positivity)]; nlinarith
    linarith

/-- A7': with `G = W` the generalised map is the per-axis one -/
theorem rescaleExactG_self (pad span A W x : Rat) : rescaleExactG pad span A W W x = rescaleExact pad span A W x := rfl

/-- A8: an evaluation error that is at most the distance to 1 and at most 1/16 keeps a value of `(1, 15/8]` inside `[1, 2)` -/
theorem rescaleG_margin (r r' : Rat) (hr : 1 < r ∧ r ≤ 15 / 8) (he : |r' - r| ≤ min (r - 1) (1 / 16)) :
    1 ≤ r' ∧ r' < 2 := by
  obtain ⟨h1, h2⟩ := hr
  obtain ⟨e1, e2⟩ := abs_le.mp he
  have m1 := min_le_left (r - 1) (1 / 16)
  have m2 := min_le_right (r - 1) (1 / 16)
  constructor <;> linarith

/-- composition for the shared scale: mantissa in `[0, 2^52)` -/
theorem gridG_in_range_fixed (A W G x r' : Rat) (hW : 0 < W) (hG : W ≤ G) (hlo : A - W ≤ x) (hhi : x ≤ A + 2 * W)
    (he : |r' - rescaleExactG (3 / 2) 4 A W G x| ≤ min (rescaleExactG (3 / 2) 4 A W G x - 1) (1 / 16)) :
    0 ≤ mantissa r' ∧ mantissa r' < 2 ^ 52 := by
  have hr := rescaleG_range_fixed A W G x hW hG hlo hhi
  have hG0 : 0 < G := lt_of_lt_of_le hW hG
  have hpos : 0 < W / (8 * G) := by positivity
  exact (mantissa_range_mono r' r' (rescaleG_margin _ r' ⟨by linarith [hr.1], hr.2⟩ he)).1

/-- the shared grid width of an active axis dominates the axis' own width (dim = 1, 2, 3) -/
theorem gridWidth_ge (dim : Nat) (hd : dim = 1 ∨ dim = 2 ∨ dim = 3) (w0 w1 w2 : Rat) :
    w0 ≤ gridWidth true dim w0 w1 w2 0 ∧ w1 ≤ gridWidth true dim w0 w1 w2 1 ∧ w2 ≤ gridWidth true dim w0 w1 w2 2 := by
  rcases hd with rfl | rfl | rfl
  · simp [gridWidth]
  · simp [gridWidth]
  · simp [gridWidth]

/-- all active axes get the SAME grid width: the map to the grid is a similarity on the active subspace -/
theorem gridWidth_shared (dim : Nat) (w0 w1 w2 : Rat) (i j : Nat) (hi : i < dim) (hj : j < dim) :
    gridWidth true dim w0 w1 w2 i = gridWidth true dim w0 w1 w2 j := by
  unfold gridWidth
  have h1 : ¬ (i ≥ dim) := by omega
  have h2 : ¬ (j ≥ dim) := by omega
  simp [h1, h2]

/-- non-vacuity: unit box, generator on the lower wall; pinned parameters give exactly 2, the repaired ones 15/8. -/
example : rescaleExact 1 3 0 1 (mirrorHigh 0 1 0) = 2 ∧ rescaleExact (3 / 2) 4 0 1 (mirrorHigh 0 1 0) = 15 / 8 := by
  constructor <;> norm_num [rescaleExact, mirrorHigh]

example : mantissa (3 / 2) = 2 ^ 51 := by norm_num [mantissa]

end MVoro.GridProofs

/-! ## B. the exact in-sphere determinant -/
namespace MVoro.InSphereProofs

open MVoro Ref

variable {α : Type} [CommRing α]

set_option maxRecDepth 65536 in
/-- B1: swapping `b` and `c` negates the in-sphere determinant. -/
theorem inSphereDet_swap_bc (a b c d v : I3 α) :
    inSphereDet a c b d v = - inSphereDet a b c d v := by
  simp only [inSphereDet, bigInt, det3, det2]; ring

set_option maxRecDepth 65536 in
/-- B1: swapping `c` and `d` negates the in-sphere determinant. -/
theorem inSphereDet_swap_cd (a b c d v : I3 α) :
    inSphereDet a b d c v = - inSphereDet a b c d v := by
  simp only [inSphereDet, bigInt, det3, det2]; ring

set_option maxRecDepth 65536 in
/-- B1: swapping `d` and `v` negates the in-sphere determinant. -/
theorem inSphereDet_swap_dv (a b c d v : I3 α) :
    inSphereDet a b c v d = - inSphereDet a b c d v := by
  simp only [inSphereDet, bigInt, det3, det2]; ring

set_option maxRecDepth 65536 in
/-- B1: swapping the base point `a` with `b` also negates it (the 5-point determinant is alternating). -/
theorem inSphereDet_swap_ab (a b c d v : I3 α) :
    inSphereDet b a c d v = - inSphereDet a b c d v := by
  simp only [inSphereDet, bigInt, det3, det2]; ring

/-- B2: swapping `a` and `b` negates the orientation determinant. -/
theorem orient_swap_ab (a b c d : I3 α) : orient b a c d = - orient a b c d := by
  simp only [orient, bigInt, det3, det2]; ring

/-- B2: swapping `b` and `c` negates the orientation determinant. -/
theorem orient_swap_bc (a b c d : I3 α) : orient a c b d = - orient a b c d := by
  simp only [orient, bigInt, det3, det2]; ring

/-- B2: swapping `c` and `d` negates the orientation determinant. -/
theorem orient_swap_cd (a b c d : I3 α) : orient a b d c = - orient a b c d := by
  simp only [orient, bigInt, det3, det2]; ring

/-- B3: the oriented in-sphere value `inSphereDet · orient` does not depend on the order in which the four
sphere-defining points are listed (stated for the three adjacent transpositions, which generate `S₄`). -/
theorem insphere_consistent (a b c d v : I3 α) :
    inSphereDet b a c d v * orient b a c d = inSphereDet a b c d v * orient a b c d ∧
    inSphereDet a c b d v * orient a c b d = inSphereDet a b c d v * orient a b c d ∧
    inSphereDet a b d c v * orient a b d c = inSphereDet a b c d v * orient a b c d := by
  refine ⟨?_, ?_, ?_⟩
  · rw [inSphereDet_swap_ab, orient_swap_ab]; ring
  · rw [inSphereDet_swap_bc, orient_swap_bc]; ring
  · rw [inSphereDet_swap_cd, orient_swap_cd]; ring

/-! ### similarity invariance (why the grid must use ONE scale on all active axes, fix `29187d1`) -/

/-- uniform scaling of all five points by `k` multiplies the determinant by `k^5` … -/
theorem inSphereDet_scale (k : α) (a b c d v : I3 α) :
    inSphereDet ⟨k * a.c0, k * a.c1, k * a.c2⟩ ⟨k * b.c0, k * b.c1, k * b.c2⟩ ⟨k * c.c0, k * c.c1, k * c.c2⟩
        ⟨k * d.c0, k * d.c1, k * d.c2⟩ ⟨k * v.c0, k * v.c1, k * v.c2⟩
      = k ^ 5 * inSphereDet a b c d v := by
  simp only [inSphereDet, bigInt, det3, det2]
  ring

/-- … and the orientation by `k^3`, so `inSphereDet * orient` (what decides "inside") by `k^8 ≥ 0` -/
theorem orient_scale (k : α) (a b c d : I3 α) :
    orient ⟨k * a.c0, k * a.c1, k * a.c2⟩ ⟨k * b.c0, k * b.c1, k * b.c2⟩ ⟨k * c.c0, k * c.c1, k * c.c2⟩
        ⟨k * d.c0, k * d.c1, k * d.c2⟩ = k ^ 3 * orient a b c d := by
  simp only [orient, bigInt, det3, det2]
  ring

/-- translation of all five points leaves the determinant unchanged -/
theorem inSphereDet_translate (t a b c d v : I3 α) :
    inSphereDet ⟨a.c0 + t.c0, a.c1 + t.c1, a.c2 + t.c2⟩ ⟨b.c0 + t.c0, b.c1 + t.c1, b.c2 + t.c2⟩
        ⟨c.c0 + t.c0, c.c1 + t.c1, c.c2 + t.c2⟩ ⟨d.c0 + t.c0, d.c1 + t.c1, d.c2 + t.c2⟩
        ⟨v.c0 + t.c0, v.c1 + t.c1, v.c2 + t.c2⟩ = inSphereDet a b c d v := by
  simp only [inSphereDet, bigInt, det3, det2]
  ring

/-- a per-axis scaling of the unused axis only (1D/2D: all five points share… no, the mirror images differ there):
scaling the LAST axis by `m` while the first two share `k` keeps the sign as long as the five points differ along the
last axis only through mirror images — the general statement the code needs is the 3D one above; for 2D the z-scale
enters as follows: if `a b c v` have the same last coordinate and `d` is any point, the determinant is
`(d.c2 - a.c2)` times an expression that does not involve the last axis otherwise -/
theorem inSphereDet_planar (a b c d v : I3 α) (hb : b.c2 = a.c2) (hc : c.c2 = a.c2) (hv : v.c2 = a.c2) :
    inSphereDet a b c d v =
      (d.c2 - a.c2) *
        ( (b.c0 - a.c0) * ((c.c1 - a.c1) * ((v.c0 - a.c0) * (v.c0 - a.c0) + (v.c1 - a.c1) * (v.c1 - a.c1))
                         - (v.c1 - a.c1) * ((c.c0 - a.c0) * (c.c0 - a.c0) + (c.c1 - a.c1) * (c.c1 - a.c1)))
        - (b.c1 - a.c1) * ((c.c0 - a.c0) * ((v.c0 - a.c0) * (v.c0 - a.c0) + (v.c1 - a.c1) * (v.c1 - a.c1))
                         - (v.c0 - a.c0) * ((c.c0 - a.c0) * (c.c0 - a.c0) + (c.c1 - a.c1) * (c.c1 - a.c1)))
        + ((b.c0 - a.c0) * (b.c0 - a.c0) + (b.c1 - a.c1) * (b.c1 - a.c1))
            * ((c.c0 - a.c0) * (v.c1 - a.c1) - (v.c0 - a.c0) * (c.c1 - a.c1)) ) := by
  simp only [inSphereDet, bigInt, det3, det2, hb, hc, hv]
  ring

/-- B4: the `i64` subtraction of two grid coordinates in `[0, 2^52)` is exact. -/
theorem i64_sub_exact (a b : Int) (ha : 0 ≤ a ∧ a < 2 ^ 52) (hb : 0 ≤ b ∧ b < 2 ^ 52) :
    (Int64.ofInt a - Int64.ofInt b).toInt = a - b := by
  obtain ⟨ha1, ha2⟩ := ha
  obtain ⟨hb1, hb2⟩ := hb
  rw [← Int64.ofInt_sub]
  exact Int64.toInt_ofInt_of_le (by omega) (by omega)

/-- non-vacuity: a concrete tetrahedron with a point inside its circumsphere, both orders. -/
example :
    inSphereDet (⟨0, 0, 0⟩ : I3 Int) ⟨4, 0, 0⟩ ⟨0, 4, 0⟩ ⟨0, 0, 4⟩ ⟨1, 1, 1⟩ *
      orient (⟨0, 0, 0⟩ : I3 Int) ⟨4, 0, 0⟩ ⟨0, 4, 0⟩ ⟨0, 0, 4⟩ ≠ 0 ∧
    inSphereDet (⟨0, 0, 0⟩ : I3 Int) ⟨4, 0, 0⟩ ⟨0, 4, 0⟩ ⟨0, 0, 4⟩ ⟨1, 1, 1⟩ *
      orient (⟨0, 0, 0⟩ : I3 Int) ⟨4, 0, 0⟩ ⟨0, 4, 0⟩ ⟨0, 0, 4⟩ =
    inSphereDet (⟨0, 4, 0⟩ : I3 Int) ⟨0, 0, 0⟩ ⟨0, 0, 4⟩ ⟨4, 0, 0⟩ ⟨1, 1, 1⟩ *
      orient (⟨0, 4, 0⟩ : I3 Int) ⟨0, 0, 0⟩ ⟨0, 0, 4⟩ ⟨4, 0, 0⟩ := by
  decide

example : (Int64.ofInt 5 - Int64.ofInt (2 ^ 52 - 1)).toInt = 5 - (2 ^ 52 - 1) :=
  i64_sub_exact 5 (2 ^ 52 - 1) (by omega) (by omega)

end MVoro.InSphereProofs

namespace MVoro.InSphereWitness
open MVoro Ref

/-- the pinned tree rescaled every axis separately: a concrete 5-tuple whose answer flips when only the first axis is
scaled by 2 (orientation stays positive, "outside" becomes "inside") -/
theorem anisotropic_scaling_flips_sign :
    (0 < orient (⟨0, 1, 3⟩ : I3 Int) ⟨2, 3, 0⟩ ⟨3, 0, 2⟩ ⟨3, 1, 1⟩ ∧
      0 < inSphereDet (⟨0, 1, 3⟩ : I3 Int) ⟨2, 3, 0⟩ ⟨3, 0, 2⟩ ⟨3, 1, 1⟩ ⟨1, 0, 1⟩) ∧
    (0 < orient (⟨0, 1, 3⟩ : I3 Int) ⟨4, 3, 0⟩ ⟨6, 0, 2⟩ ⟨6, 1, 1⟩ ∧
      inSphereDet (⟨0, 1, 3⟩ : I3 Int) ⟨4, 3, 0⟩ ⟨6, 0, 2⟩ ⟨6, 1, 1⟩ ⟨2, 0, 1⟩ < 0) := by
  decide

end MVoro.InSphereWitness

/-! ## C. schedule independence -/
namespace MVoro.SchedProofs

open MVoro.Sched

variable {β : Type}

/-- the slot writes keep the number of slots -/
theorem runOrder_length (f : Nat → β) (order : List Nat) (slots : List (Option β)) :
    (runOrder f order slots).length = slots.length := by
  induction order generalizing slots with
  | nil => rfl
  | cons j rest ih =>
    show (runOrder f rest (slots.set j (some (f j)))).length = slots.length
    rw [ih]; simp

/-- generalised invariant: after any completion order, slot `i` holds `f i` if task `i` completed, else is unchanged -/
theorem runOrder_getElem? (f : Nat → β) (order : List Nat) (slots : List (Option β)) (i : Nat) :
    (runOrder f order slots)[i]? =
      if i ∈ order then (if i < slots.length then some (some (f i)) else none) else slots[i]? := by
  induction order generalizing slots with
  | nil => simp [runOrder]
  | cons j rest ih =>
    show (runOrder f rest (slots.set j (some (f j))))[i]? = _
    rw [ih, List.getElem?_set, List.length_set]
    by_cases hij : j = i
    · subst hij
      by_cases hm : j ∈ rest <;> simp [hm]
    · have hij' : ¬ i = j := fun h => hij h.symm
      by_cases hm : i ∈ rest <;> simp [hm, hij, hij']

/-- C1: whatever the completion order and the initial slot content, every slot `i` ends up holding `f i`. -/
theorem runOrder_perm (f : Nat → β) (n : Nat) (order : List Nat) (slots : List (Option β))
    (hperm : order.Perm (List.range n)) (hlen : slots.length = n) :
    runOrder f order slots = (List.range n).map (fun i => some (f i)) := by
  apply List.ext_getElem?
  intro i
  rw [runOrder_getElem?]
  have hmem : i ∈ order ↔ i < n := by rw [hperm.mem_iff]; exact List.mem_range
  by_cases hi : i < n
  · simp [hmem, hi, hlen]
  · have : n ≤ i := Nat.le_of_not_lt hi
    simp [hmem, hi, hlen, this]

/-- C2: any recursive splitting of the index range gives the sequential result. -/
theorem collect_eq (f : Nat → β) (s : Split) (lo len : Nat) :
    collect f s lo len = (List.range len).map (fun i => f (lo + i)) := by
  induction s generalizing lo len with
  | seq => rfl
  | cut k l r ihl ihr =>
    show collect f l lo (min k len) ++ collect f r (lo + min k len) (len - min k len) = _
    rw [ihl, ihr]
    have hk : min k len ≤ len := Nat.min_le_right _ _
    have hsplit : len = min k len + (len - min k len) := by omega
    conv_rhs => rw [hsplit, List.range_add, List.map_append, List.map_map]
    congr 1
    apply List.map_congr_left
    intro i _
    simp [Function.comp, Nat.add_assoc]

/-- C3: the flattened, filtered face list does not depend on the splitting. -/
theorem flattenCollect_eq (f : Nat → Option (List β)) (s : Split) (n : Nat) :
    flattenCollect f s n = (((List.range n).map f).filterMap id).flatten := by
  unfold flattenCollect
  rw [collect_eq]
  simp

/-- C4: two different completion orders give the same slots. -/
theorem runOrder_any_two (f : Nat → β) (n : Nat) (o₁ o₂ : List Nat) (s₁ s₂ : List (Option β))
    (h₁ : o₁.Perm (List.range n)) (h₂ : o₂.Perm (List.range n))
    (l₁ : s₁.length = n) (l₂ : s₂.length = n) :
    runOrder f o₁ s₁ = runOrder f o₂ s₂ := by
  rw [runOrder_perm f n o₁ s₁ h₁ l₁, runOrder_perm f n o₂ s₂ h₂ l₂]

/-- C4': two different split trees give the same collected vector. -/
theorem collect_any_two (f : Nat → β) (s₁ s₂ : Split) (lo len : Nat) :
    collect f s₁ lo len = collect f s₂ lo len := by
  rw [collect_eq, collect_eq]

/-- non-vacuity: a reversed and a shuffled order, different initial garbage, same result. -/
example :
    runOrder (fun i => i * i) [3, 1, 0, 2] [none, some 7, none, some 9] =
      [some 0, some 1, some 4, some 9] ∧
    runOrder (fun i => i * i) [0, 1, 2, 3] [none, none, none, none] =
      [some 0, some 1, some 4, some 9] := by
  decide

example :
    collect (fun i => 10 * i) (.cut 2 (.cut 1 .seq .seq) (.cut 7 .seq .seq)) 1 5 = [10, 20, 30, 40, 50] := by
  decide

end MVoro.SchedProofs

/-! ## D. the type-state of `ConvexCell<M>` -/
namespace MVoro.TypeStateProofs

open MVoro.TypeState

variable {P F : Type}

/-- the run-time invariant tying the face data to the compile-time marker -/
def Good (c : Cell P F) : Prop :=
  (c.marker = .withFaces → c.faces.isSome) ∧ (c.marker = .withoutFaces → c.faces = none)

/-- D1: a freshly constructed cell satisfies the invariant. -/
theorem new_good (dim : Nat) (p : P) : Good (new dim p : Cell P F) := by
  constructor
  · intro h; simp [new] at h
  · intro _; rfl

/-- D1: every accepted operation preserves the invariant. -/
theorem step_good (derive : P → F) (c c' : Cell P F) (op : Op P F)
    (hg : Good c) (hs : step derive c op = .ok c') : Good c' := by
  obtain ⟨g1, g2⟩ := hg
  cases op with
  | withFaces =>
    simp only [step] at hs
    split at hs
    · cases hs
    · split at hs
      · cases hs; exact ⟨fun _ => rfl, fun h => by simp at h⟩
      · cases hs
  | discardFaces =>
    simp only [step] at hs
    split at hs
    · cases hs
    · cases hs; exact ⟨fun h => by simp at h, fun _ => rfl⟩
  | mutate g =>
    simp only [step] at hs
    split at hs
    · cases hs
    · next hm => cases hs; exact ⟨fun h => by simp [hm] at h, fun _ => g2 hm⟩
  | readFaces =>
    simp only [step] at hs
    split at hs
    · cases hs
    · split at hs
      · cases hs; exact ⟨g1, g2⟩
      · cases hs

/-- a single operation on a good cell is never undefined behaviour -/
theorem step_ne_ub (derive : P → F) (c : Cell P F) (op : Op P F) (hg : Good c) :
    step derive c op ≠ .ub := by
  obtain ⟨g1, g2⟩ := hg
  cases op with
  | withFaces => simp only [step]; split <;> [simp; (split <;> simp)]
  | discardFaces => simp only [step]; split <;> simp
  | mutate g => simp only [step]; split <;> simp
  | readFaces =>
    simp only [step]
    split
    · simp
    · next hm => simp [g1 hm]

/-- programs started from a good cell never reach undefined behaviour -/
theorem run_good_never_ub (derive : P → F) (c : Cell P F) (ops : List (Op P F)) (hg : Good c) :
    run derive c ops ≠ .ub := by
  induction ops generalizing c with
  | nil => simp [run]
  | cons op ops ih =>
    have hne := step_ne_ub derive c op hg
    simp only [run]
    split
    · next c' hs => exact ih c' (step_good derive c c' op hg hs)
    · next r hr => exact hne

/-- D2: no program of (well-typed or ill-typed) operations from `ConvexCell::new` reads absent face data unchecked. -/
theorem run_never_ub (derive : P → F) (dim : Nat) (p : P) (ops : List (Op P F)) :
    run derive (new dim p) ops ≠ .ub :=
  run_good_never_ub derive _ ops (new_good dim p)

/-- D3 (general): `with_faces` on a `WithoutFaces` cell of dimension ≠ 3 is rejected. -/
theorem withFaces_rejected_lowdim' (derive : P → F) (c : Cell P F)
    (hm : c.marker = .withoutFaces) (hd : c.dim ≠ 3) :
    step derive c .withFaces = .rejected := by
  simp [step, hm, hd]

/-- D3: requesting faces for a fresh 1D/2D cell is rejected. -/
theorem withFaces_rejected_lowdim (derive : P → F) (dim : Nat) (p : P) (hd : dim ≠ 3) :
    step derive (new dim p) .withFaces = .rejected :=
  withFaces_rejected_lowdim' derive (new dim p) rfl hd

/-- D4: `discard_faces ∘ with_faces` is the identity on a 3D `WithoutFaces` cell, and re-deriving gives the same face
data (`with_faces ∘ discard_faces ∘ with_faces = with_faces`). -/
theorem discard_withFaces_id (derive : P → F) (c : Cell P F)
    (hm : c.marker = .withoutFaces) (hf : c.faces = none) (hd : c.dim = 3) :
    ∃ c1 : Cell P F,
      c1 = { c with marker := .withFaces, faces := some (derive c.payload) } ∧
      step derive c .withFaces = .ok c1 ∧
      step derive c1 .discardFaces = .ok c ∧
      run derive c [.withFaces, .discardFaces, .withFaces] = .ok c1 ∧
      run derive c [.withFaces, .readFaces, .discardFaces] = .ok c := by
  obtain ⟨m, d, p, fc⟩ := c
  simp only at hm hf hd
  subst hm hf hd
  refine ⟨_, rfl, ?_, ?_, ?_, ?_⟩ <;> simp [step, run]

/-- non-vacuity: a 3D cell goes through the whole life cycle; a 2D cell is rejected; an ill-typed read is a type error. -/
example :
    (match run (P := Nat) (F := Nat) (· + 1) (new 3 5) [.mutate (· * 2), .withFaces, .readFaces] with
      | .ok c => c.faces = some 11 ∧ c.marker = .withFaces
      | _ => False) ∧
    (match run (P := Nat) (F := Nat) (· + 1) (new 2 5) [.withFaces, .readFaces] with
      | .rejected => True
      | _ => False) ∧
    (match run (P := Nat) (F := Nat) (· + 1) (new 3 5) [.readFaces] with
      | .typeError => True
      | _ => False) := by
  simp [run, step, new]

end MVoro.TypeStateProofs

#print axioms MVoro.GridProofs.rescale_range_fixed
#print axioms MVoro.GridProofs.rescale_hits_two_pinned
#print axioms MVoro.GridProofs.rescale_range_pinned
#print axioms MVoro.GridProofs.queried_positions
#print axioms MVoro.GridProofs.tripled_contains_images
#print axioms MVoro.GridProofs.rescale_margin
#print axioms MVoro.GridProofs.rescaleWith_mono
#print axioms MVoro.GridProofs.mantissa_range_mono
#print axioms MVoro.GridProofs.grid_in_range_fixed
#print axioms MVoro.InSphereProofs.inSphereDet_swap_bc
#print axioms MVoro.InSphereProofs.inSphereDet_swap_cd
#print axioms MVoro.InSphereProofs.inSphereDet_swap_dv
#print axioms MVoro.InSphereProofs.inSphereDet_swap_ab
#print axioms MVoro.InSphereProofs.orient_swap_ab
#print axioms MVoro.InSphereProofs.orient_swap_bc
#print axioms MVoro.InSphereProofs.orient_swap_cd
#print axioms MVoro.InSphereProofs.insphere_consistent
#print axioms MVoro.InSphereProofs.i64_sub_exact
#print axioms MVoro.SchedProofs.runOrder_perm
#print axioms MVoro.SchedProofs.collect_eq
#print axioms MVoro.SchedProofs.flattenCollect_eq
#print axioms MVoro.SchedProofs.runOrder_any_two
#print axioms MVoro.SchedProofs.collect_any_two
#print axioms MVoro.TypeStateProofs.new_good
#print axioms MVoro.TypeStateProofs.step_good
#print axioms MVoro.TypeStateProofs.run_never_ub
#print axioms MVoro.TypeStateProofs.withFaces_rejected_lowdim
#print axioms MVoro.TypeStateProofs.withFaces_rejected_lowdim'
#print axioms MVoro.TypeStateProofs.discard_withFaces_id
