import MVoro.Proofs.GridWF
import Mathlib.Data.List.ProdSigma
namespace MVoro.RingWF
open MVoro MVoro.Knn MVoro.KnnProofs MVoro.GridWF List

/-- offsets `-r … r` -/
def ds (r : Nat) : List Int := (List.range (2 * r + 1)).map fun (t : Nat) => Int.ofNat t - (r : Int)

theorem mem_ds {r : Nat} {d : Int} : d ∈ ds r ↔ -(r : Int) ≤ d ∧ d ≤ r := by
  unfold ds
  simp only [List.mem_map, List.mem_range]
  constructor
  · rintro ⟨t, ht, rfl⟩; simp only [Int.ofNat_eq_natCast]; omega
  · intro h
    exact ⟨(d + r).toNat, by omega, by simp only [Int.ofNat_eq_natCast]; omega⟩

theorem nodup_ds (r : Nat) : (ds r).Nodup := by
  unfold ds
  apply List.Nodup.map _ List.nodup_range
  intro a b h
  simp only [Int.ofNat_eq_natCast] at h
  omega

/-- the inner expression of `get_r_ring` for one offset triple -/
def G (cx cy cz : Nat) (i j k : Int) (r : Nat) (t : Int × Int × Int) : Option Nat :=
  if max (max t.1.natAbs t.2.1.natAbs) t.2.2.natAbs < r then none
  else if i + t.1 < 0 || j + t.2.1 < 0 || k + t.2.2 < 0 || i + t.1 ≥ cx || j + t.2.1 ≥ cy || k + t.2.2 ≥ cz then none
  else some ((i + t.1).toNat * cy * cz + (j + t.2.1).toNat * cz + (k + t.2.2).toNat)

/-- `get_r_ring` as one `filterMap` over the cube of offsets -/
theorem ring_eq (s : Space) (cid r : Nat) (hr : r ≠ 0) :
    ring s cid r = ((ds r) ×ˢ ((ds r) ×ˢ (ds r))).filterMap
      (G s.cdim.1 s.cdim.2.1 s.cdim.2.2 (cid / (s.cdim.2.1 * s.cdim.2.2) : Nat) ((cid % (s.cdim.2.1 * s.cdim.2.2)) / s.cdim.2.2 : Nat) (cid % s.cdim.2.2 : Nat) r) := by
  obtain ⟨anchor, width, ⟨cx, cy, cz⟩, cw, cells, pos⟩ := s
  have hr' : (r == 0) = false := by simpa using hr
  simp only [ring, hr', Bool.false_eq_true, if_false, SProd.sprod, List.product, List.filterMap_flatMap, List.filterMap_map, ds]
  rfl


theorem G_some {cx cy cz : Nat} {i j k : Int} {r : Nat} {t : Int × Int × Int} {c : Nat} :
    G cx cy cz i j k r t = some c ↔
      r ≤ max (max t.1.natAbs t.2.1.natAbs) t.2.2.natAbs ∧ (0 ≤ i + t.1 ∧ i + t.1 < cx) ∧ (0 ≤ j + t.2.1 ∧ j + t.2.1 < cy) ∧
      (0 ≤ k + t.2.2 ∧ k + t.2.2 < cz) ∧ c = (i + t.1).toNat * cy * cz + (j + t.2.1).toNat * cz + (k + t.2.2).toNat := by
  unfold G
  by_cases h1 : max (max t.1.natAbs t.2.1.natAbs) t.2.2.natAbs < r
  · simp only [h1, if_true]
    constructor
    · intro h; cases h
    · intro h; omega
  · simp only [h1, if_false]
    by_cases h2 : (i + t.1 < 0 || j + t.2.1 < 0 || k + t.2.2 < 0 || i + t.1 ≥ cx || j + t.2.1 ≥ cy || k + t.2.2 ≥ cz) = true
    · simp only [h2, if_true]
      simp only [Bool.or_eq_true, decide_eq_true_eq] at h2
      constructor
      · intro h; cases h
      · intro h; omega
    · simp only [h2]
      simp only [Bool.or_eq_true, decide_eq_true_eq, not_or, not_lt, ge_iff_le, not_le] at h2
      constructor
      · intro h
        have : (i + t.1).toNat * cy * cz + (j + t.2.1).toNat * cz + (k + t.2.2).toNat = c := by simpa using h
        refine ⟨by omega, ⟨by omega, by omega⟩, ⟨by omega, by omega⟩, ⟨by omega, by omega⟩, this.symm⟩
      · intro h
        simp [h.2.2.2.2]

/-- Chebyshev distance of the index triples of two cells -/
def cheb (cy cz c cid : Nat) : Nat :=
  max (max (((c / (cy * cz) : Nat) : Int) - ((cid / (cy * cz) : Nat) : Int)).natAbs
           ((((c % (cy * cz)) / cz : Nat) : Int) - (((cid % (cy * cz)) / cz : Nat) : Int)).natAbs)
      (((c % cz : Nat) : Int) - ((cid % cz : Nat) : Int)).natAbs

theorem decode_enc (cy cz c : Nat) (_hz : 0 < cz) :
    c = (c / (cy * cz)) * cy * cz + ((c % (cy * cz)) / cz) * cz + c % cz := by
  have h1 := Nat.div_add_mod c (cy * cz)
  have h2 := Nat.div_add_mod (c % (cy * cz)) cz
  have h3 : c % (cy * cz) % cz = c % cz := by
    conv_rhs => rw [← h1]
    rw [show cy * cz * (c / (cy * cz)) = cz * (cy * (c / (cy * cz))) by ring, Nat.mul_add_mod]
  have e : (c / (cy * cz)) * cy * cz = cy * cz * (c / (cy * cz)) := by ring
  have e2 : ((c % (cy * cz)) / cz) * cz = cz * ((c % (cy * cz)) / cz) := by ring
  rw [e, e2, ← h3]
  omega

theorem cheb_of_offsets (I J K : Nat) (d1 d2 d3 : Int) (r : Nat) (h1 : -(r : Int) ≤ d1 ∧ d1 ≤ r) (h2 : -(r : Int) ≤ d2 ∧ d2 ≤ r)
    (h3 : -(r : Int) ≤ d3 ∧ d3 ≤ r) (hge : r ≤ max (max d1.natAbs d2.natAbs) d3.natAbs)
    (a0 : 0 ≤ (I : Int) + d1) (b0 : 0 ≤ (J : Int) + d2) (c0 : 0 ≤ (K : Int) + d3) :
    max (max ((((I : Int) + d1).toNat : Int) - I).natAbs ((((J : Int) + d2).toNat : Int) - J).natAbs)
      ((((K : Int) + d3).toNat : Int) - K).natAbs = r := by
  omega

variable {cx cy cz : Nat}

theorem tri_lt (hy : 0 < cy) (hz : 0 < cz) {c : Nat} (hc : c < cx * cy * cz) :
    c / (cy * cz) < cx ∧ (c % (cy * cz)) / cz < cy ∧ c % cz < cz := by
  have hm : 0 < cy * cz := Nat.mul_pos hy hz
  refine ⟨?_, ?_, Nat.mod_lt _ hz⟩
  · rw [Nat.div_lt_iff_lt_mul hm]; rw [Nat.mul_assoc] at hc; exact hc
  · rw [Nat.div_lt_iff_lt_mul hz]; exact Nat.mod_lt _ hm

/-- membership in `get_r_ring`, `r > 0`: the cells at Chebyshev index distance exactly `r` -/
theorem mem_ring_pos (s : Space) (hs : s.cdim = (cx, cy, cz)) (hy : 0 < cy) (hz : 0 < cz) (cid r c : Nat) (hr : r ≠ 0)
    (hcid : cid < cx * cy * cz) :
    c ∈ ring s cid r ↔ c < cx * cy * cz ∧ cheb cy cz c cid = r := by
  rw [ring_eq s cid r hr, hs]
  simp only [List.mem_filterMap]
  obtain ⟨hi, hj, hk⟩ := tri_lt hy hz hcid
  unfold cheb
  generalize cid / (cy * cz) = I at hi ⊢
  generalize cid % (cy * cz) / cz = J at hj ⊢
  generalize cid % cz = K at hk ⊢
  constructor
  · rintro ⟨⟨d1, d2, d3⟩, ht, hG⟩
    obtain ⟨h1, h23⟩ := List.mem_product.1 ht
    obtain ⟨h2, h3⟩ := List.mem_product.1 h23
    rw [mem_ds] at h1 h2 h3
    obtain ⟨hge, ⟨a0, a1⟩, ⟨b0, b1⟩, ⟨c0, c1⟩, hc⟩ := G_some.1 hG
    simp only at hge a0 a1 b0 b1 c0 c1 hc
    obtain ⟨q1, q2, q3, q4⟩ := index_spec ((I : Int) + d1).toNat ((J : Int) + d2).toNat ((K : Int) + d3).toNat cx cy cz
      (by omega) (by omega) (by omega)
    rw [← hc] at q1 q2 q3 q4
    refine ⟨q1, ?_⟩
    rw [q2, q3, q4]
    exact cheb_of_offsets I J K d1 d2 d3 r h1 h2 h3 hge a0 b0 c0
  · rintro ⟨hc, hch⟩
    obtain ⟨ha, hb, hc'⟩ := tri_lt hy hz hc
    have hdec := decode_enc cy cz c hz
    generalize c / (cy * cz) = A at ha hch hdec
    generalize c % (cy * cz) / cz = B at hb hch hdec
    generalize c % cz = C at hc' hch hdec
    refine ⟨((A : Int) - I, (B : Int) - J, (C : Int) - K), ?_, ?_⟩
    · refine List.mem_product.2 ⟨mem_ds.2 (by omega), List.mem_product.2 ⟨mem_ds.2 (by omega), mem_ds.2 (by omega)⟩⟩
    · rw [G_some]
      simp only
      refine ⟨by omega, ⟨by omega, by omega⟩, ⟨by omega, by omega⟩, ⟨by omega, by omega⟩, ?_⟩
      have e1 : ((I : Int) + ((A : Int) - I)).toNat = A := by omega
      have e2 : ((J : Int) + ((B : Int) - J)).toNat = B := by omega
      have e3 : ((K : Int) + ((C : Int) - K)).toNat = C := by omega
      rw [e1, e2, e3]
      exact hdec

theorem nodup_ring_pos (s : Space) (hs : s.cdim = (cx, cy, cz)) (cid r : Nat) (hr : r ≠ 0) : (ring s cid r).Nodup := by
  rw [ring_eq s cid r hr, hs]
  apply List.Nodup.filterMap _ ((nodup_ds r).product ((nodup_ds r).product (nodup_ds r)))
  generalize cid / (cy * cz) = I
  generalize cid % (cy * cz) / cz = J
  generalize cid % cz = K
  rintro ⟨d1, d2, d3⟩ ⟨e1, e2, e3⟩ c h h'
  obtain ⟨_, ⟨a0, a1⟩, ⟨b0, b1⟩, ⟨c0, c1⟩, hc⟩ := G_some.1 (Option.mem_def.1 h)
  obtain ⟨_, ⟨a0', a1'⟩, ⟨b0', b1'⟩, ⟨c0', c1'⟩, hc'⟩ := G_some.1 (Option.mem_def.1 h')
  simp only at a0 a1 b0 b1 c0 c1 hc a0' a1' b0' b1' c0' c1' hc'
  obtain ⟨_, q2, q3, q4⟩ := index_spec ((I : Int) + d1).toNat ((J : Int) + d2).toNat ((K : Int) + d3).toNat cx cy cz
    (by omega) (by omega) (by omega)
  obtain ⟨_, q2', q3', q4'⟩ := index_spec ((I : Int) + e1).toNat ((J : Int) + e2).toNat ((K : Int) + e3).toNat cx cy cz
    (by omega) (by omega) (by omega)
  rw [← hc] at q2 q3 q4
  rw [← hc'] at q2' q3' q4'
  have : d1 = e1 := by omega
  have : d2 = e2 := by omega
  have : d3 = e3 := by omega
  subst_vars; rfl


theorem ring_zero (s : Space) (cid : Nat) : ring s cid 0 = [cid] := by
  obtain ⟨anchor, width, ⟨cx, cy, cz⟩, cw, cells, pos⟩ := s
  simp [ring]

theorem cheb_self (cy cz c : Nat) : cheb cy cz c c = 0 := by unfold cheb; simp

theorem eq_of_cheb_zero (hz : 0 < cz) {c cid : Nat} (h : cheb cy cz c cid = 0) : c = cid := by
  have h1 := decode_enc cy cz c hz
  have h2 := decode_enc cy cz cid hz
  unfold cheb at h
  generalize c / (cy * cz) = A at h h1
  generalize c % (cy * cz) / cz = B at h h1
  generalize c % cz = C at h h1
  generalize cid / (cy * cz) = I at h h2
  generalize cid % (cy * cz) / cz = J at h h2
  generalize cid % cz = K at h h2
  have : A = I := by omega
  have : B = J := by omega
  have : C = K := by omega
  subst_vars; rfl

/-- **`get_r_ring` lists exactly the cells at Chebyshev index distance `r`**, each once -/
theorem mem_ring (s : Space) (hs : s.cdim = (cx, cy, cz)) (hy : 0 < cy) (hz : 0 < cz) (cid r c : Nat) (hcid : cid < cx * cy * cz) :
    c ∈ ring s cid r ↔ c < cx * cy * cz ∧ cheb cy cz c cid = r := by
  by_cases hr : r = 0
  · subst hr
    rw [ring_zero, List.mem_singleton]
    constructor
    · rintro rfl; exact ⟨hcid, cheb_self cy cz c⟩
    · rintro ⟨_, h⟩; exact eq_of_cheb_zero hz h
  · exact mem_ring_pos s hs hy hz cid r c hr hcid

theorem nodup_ring (s : Space) (hs : s.cdim = (cx, cy, cz)) (cid r : Nat) : (ring s cid r).Nodup := by
  by_cases hr : r = 0
  · subst hr; rw [ring_zero]; simp
  · exact nodup_ring_pos s hs cid r hr

/-- the grid is finite: from ring `max cx cy cz` on the rings are empty -/
theorem ring_empty (s : Space) (hs : s.cdim = (cx, cy, cz)) (hy : 0 < cy) (hz : 0 < cz) (cid r : Nat) (hcid : cid < cx * cy * cz)
    (hr : cx + cy + cz ≤ r) : ring s cid r = [] := by
  rw [List.eq_nil_iff_forall_not_mem]
  intro c hc
  obtain ⟨hcN, hch⟩ := (mem_ring s hs hy hz cid r c hcid).1 hc
  obtain ⟨ha, hb, hc'⟩ := tri_lt hy hz hcN
  obtain ⟨hi, hj, hk⟩ := tri_lt hy hz hcid
  unfold cheb at hch
  generalize c / (cy * cz) = A at ha hch
  generalize c % (cy * cz) / cz = B at hb hch
  generalize c % cz = C at hc' hch
  generalize cid / (cy * cz) = I at hi hch
  generalize cid % (cy * cz) / cz = J at hj hch
  generalize cid % cz = K at hk hch
  omega

/-- every cell lies in exactly one ring -/
theorem mem_ring_cheb (s : Space) (hs : s.cdim = (cx, cy, cz)) (hy : 0 < cy) (hz : 0 < cz) (cid c : Nat) (hcid : cid < cx * cy * cz)
    (hc : c < cx * cy * cz) : c ∈ ring s cid (cheb cy cz c cid) ∧ cheb cy cz c cid < cx + cy + cz := by
  refine ⟨(mem_ring s hs hy hz cid _ c hcid).2 ⟨hc, rfl⟩, ?_⟩
  obtain ⟨ha, hb, hc'⟩ := tri_lt hy hz hc
  obtain ⟨hi, hj, hk⟩ := tri_lt hy hz hcid
  unfold cheb
  generalize c / (cy * cz) = A at ha
  generalize c % (cy * cz) / cz = B at hb
  generalize c % cz = C at hc'
  generalize cid / (cy * cz) = I at hi
  generalize cid % (cy * cz) / cz = J at hj
  generalize cid % cz = K at hk
  omega

#print axioms mem_ring
#print axioms ring_empty
end MVoro.RingWF
