import MVoro.Proofs.KnnCorrect
import Mathlib.Tactic.FieldSimp
import MVoro.Proofs.FacesProofs
namespace MVoro.GridWF
open MVoro MVoro.Knn MVoro.KnnProofs List

theorem ceilDiv_pos {a b : Rat} (ha : 0 < a) (hb : 0 < b) : 1 ≤ ceilDiv a b := by
  unfold ceilDiv
  have h : (0 : Int) < Rat.ceil (a / b) := by
    rw [Rat.lt_ceil_iff]
    simpa using div_pos ha hb
  omega

/-- binning by `floor`: for `0 ≤ t < 1` and `c ≥ 1` cells the index is in range and brackets `t * c` -/
theorem bin_spec (t : Rat) (c : Nat) (h0 : 0 ≤ t) (h1 : t < 1) (hc : 1 ≤ c) :
    let i := (Rat.floor (t * c)).toNat
    i < c ∧ (i : Rat) ≤ t * c ∧ t * c < i + 1 := by
  intro i
  have hc' : (0 : Rat) < c := by exact_mod_cast hc
  have hnn : (0 : Int) ≤ Rat.floor (t * c) := by
    rw [Rat.le_floor_iff]
    simpa using mul_nonneg h0 hc'.le
  have hi : (i : Int) = Rat.floor (t * c) := Int.toNat_of_nonneg hnn
  have hlt : Rat.floor (t * c) < (c : Int) := by
    rw [Rat.floor_lt_iff]
    have : t * c < 1 * c := mul_lt_mul_of_pos_right h1 hc'
    simpa using this
  refine ⟨by omega, ?_, ?_⟩
  · have := Rat.floor_le (t * c)
    have e : ((i : Int) : Rat) = (i : Rat) := by simp
    rw [← e, hi]; exact this
  · have := Rat.lt_floor_add_one (t * c)
    have e : ((i : Int) : Rat) = (i : Rat) := by simp
    rw [← e, hi]
    simpa using this

/-- row-major index arithmetic -/
theorem index_spec (i j k cx cy cz : Nat) (hi : i < cx) (hj : j < cy) (hk : k < cz) :
    let c := i * cy * cz + j * cz + k
    c < cx * cy * cz ∧ c / (cy * cz) = i ∧ (c % (cy * cz)) / cz = j ∧ c % cz = k := by
  intro c
  have hr : j * cz + k < cy * cz := by
    have : (j + 1) * cz ≤ cy * cz := Nat.mul_le_mul_right cz hj
    rw [Nat.add_mul, Nat.one_mul] at this
    omega
  have hm : 0 < cy * cz := by omega
  have hc : c = (j * cz + k) + (cy * cz) * i := by simp only [c]; ring
  refine ⟨?_, ?_, ?_, ?_⟩
  · have : (i + 1) * (cy * cz) ≤ cx * (cy * cz) := Nat.mul_le_mul_right _ hi
    have e : cx * cy * cz = cx * (cy * cz) := by ring
    rw [e]; rw [Nat.add_mul, Nat.one_mul] at this
    have : c = i * (cy * cz) + (j * cz + k) := by simp only [c]; ring
    omega
  · rw [hc, Nat.add_mul_div_left _ _ hm, Nat.div_eq_of_lt hr]; omega
  · rw [hc, Nat.add_mul_mod_self_left, Nat.mod_eq_of_lt hr]
    have : j * cz + k = k + cz * j := by ring
    rw [this, Nat.add_mul_div_left _ _ (by omega), Nat.div_eq_of_lt hk]; omega
  · have : c = k + cz * (i * cy + j) := by simp only [c]; ring
    rw [this, Nat.add_mul_mod_self_left, Nat.mod_eq_of_lt hk]

/-- a position binned into cell `i` of `c` lies in `[a + i w/c, a + (i+1) w/c]` -/
theorem bin_box (x a w : Rat) (c i : Nat) (hw : 0 < w) (hc : 1 ≤ c) (h1 : (i : Rat) ≤ (x - a) / w * c) (h2 : (x - a) / w * c < i + 1) :
    a + i * (w / c) ≤ x ∧ x ≤ a + i * (w / c) + w / c := by
  have hc' : (0 : Rat) < c := by exact_mod_cast hc
  have hq : 0 < w / c := div_pos hw hc'
  have e : (x - a) / w * c * (w / c) = x - a := by field_simp
  constructor
  · have := mul_le_mul_of_nonneg_right h1 hq.le
    rw [e] at this; linarith
  · have := mul_lt_mul_of_pos_right h2 hq
    rw [e] at this
    have : x - a < i * (w / c) + w / c := by linarith
    linarith

theorem count_filter_range (n q : Nat) (P : Nat → Bool) :
    ((List.range n).filter P).count q = if q < n ∧ P q = true then 1 else 0 := by
  by_cases hP : P q = true
  · rw [List.count_filter hP, List.count_range]; simp [hP]
  · have : ((List.range n).filter P).count q = 0 := by
      apply List.count_eq_zero.mpr
      intro hm
      exact hP (List.mem_filter.1 hm).2
    simp [this, hP]

/-- binning partitions the particles: cells `0 … N-1`, every particle with a cell index below `N` is in exactly one -/
theorem bins_perm (n N : Nat) (idx : Nat → Nat) (h : ∀ q, q < n → idx q < N) :
    ((List.range N).flatMap fun c => (List.range n).filter fun p => idx p == c) ~ List.range n := by
  rw [List.perm_iff_count]
  intro q
  rw [List.count_flatMap, List.count_range]
  have : (List.range N).map (List.count q ∘ fun c => (List.range n).filter fun p => idx p == c) =
      (List.range N).map fun c => if c = idx q then (if q < n then 1 else 0) else 0 := by
    apply List.map_congr_left
    intro c _
    simp only [Function.comp, count_filter_range]
    by_cases h1 : q < n
    · by_cases h2 : idx q = c
      · simp [h1, h2]
      · have h3 : ¬ c = idx q := fun e => h2 e.symm
        simp [h1, h2, h3]
    · simp [h1]
  rw [this]
  by_cases h1 : q < n
  · simp only [h1, if_true]
    rw [MVoro.FacesProofs.sum_indicator]
    simp [h q h1]
  · simp [h1]

theorem sort_range_of_perm {l : List Nat} {n : Nat} (h : l ~ List.range n) : l.mergeSort (· ≤ ·) = List.range n := by
  have hs := pairwise_mergeSort (le := fun a b : Nat => decide (a ≤ b))
    (fun a b c h1 h2 => by simp only [decide_eq_true_eq] at *; exact le_trans h1 h2)
    (fun a b => by simp only [Bool.or_eq_true, decide_eq_true_eq]; exact le_total a b) l
  have hs' : (l.mergeSort (· ≤ ·)).Pairwise (· ≤ ·) := by simpa using hs
  have hr : (List.range n).Pairwise (· ≤ ·) := List.pairwise_lt_range.imp Nat.le_of_lt
  exact ((mergeSort_perm _ _).trans h).eq_of_pairwise (fun _ _ _ _ hab hba => Nat.le_antisymm hab hba) hs' hr


/-- **`Space::new` builds a well-formed grid** (componentwise placement, the repaired tree): for a box of positive extents, a positive
maximal cell width and particles inside the half-open box, the certificate `gridOK` holds - cell widths are non-negative, every
particle registered in a cell lies in the box of that cell, and the cells hold every particle exactly once -/
theorem mkSpace_gridOK (anchor width : Q3) (mcw : Rat) (pos : Array Q3)
    (hw : 0 < width.x ∧ 0 < width.y ∧ 0 < width.z) (hm : 0 < mcw)
    (hin : ∀ q, q < pos.size →
      (anchor.x ≤ pos[q]!.x ∧ pos[q]!.x < anchor.x + width.x) ∧ (anchor.y ≤ pos[q]!.y ∧ pos[q]!.y < anchor.y + width.y) ∧
      (anchor.z ≤ pos[q]!.z ∧ pos[q]!.z < anchor.z + width.z)) :
    gridOK (mkSpace true anchor width mcw pos) = true := by
  obtain ⟨hwx, hwy, hwz⟩ := hw
  set cx := ceilDiv width.x mcw with hcx
  set cy := ceilDiv width.y mcw with hcy
  set cz := ceilDiv width.z mcw with hcz
  have hx1 : 1 ≤ cx := ceilDiv_pos hwx hm
  have hy1 : 1 ≤ cy := ceilDiv_pos hwy hm
  have hz1 : 1 ≤ cz := ceilDiv_pos hwz hm
  -- the three bins of a particle
  let I (q : Nat) : Nat := (Rat.floor ((pos[q]!.x - anchor.x) / width.x * cx)).toNat
  let J (q : Nat) : Nat := (Rat.floor ((pos[q]!.y - anchor.y) / width.y * cy)).toNat
  let K (q : Nat) : Nat := (Rat.floor ((pos[q]!.z - anchor.z) / width.z * cz)).toNat
  let idx (q : Nat) : Nat := I q * cy * cz + J q * cz + K q
  have hbin : ∀ q, q < pos.size →
      (I q < cx ∧ (I q : Rat) ≤ (pos[q]!.x - anchor.x) / width.x * cx ∧ (pos[q]!.x - anchor.x) / width.x * cx < I q + 1) ∧
      (J q < cy ∧ (J q : Rat) ≤ (pos[q]!.y - anchor.y) / width.y * cy ∧ (pos[q]!.y - anchor.y) / width.y * cy < J q + 1) ∧
      (K q < cz ∧ (K q : Rat) ≤ (pos[q]!.z - anchor.z) / width.z * cz ∧ (pos[q]!.z - anchor.z) / width.z * cz < K q + 1) := by
    intro q hq
    obtain ⟨⟨a1, a2⟩, ⟨b1, b2⟩, ⟨c1, c2⟩⟩ := hin q hq
    refine ⟨bin_spec _ cx (div_nonneg (by linarith) hwx.le) ?_ hx1, bin_spec _ cy (div_nonneg (by linarith) hwy.le) ?_ hy1,
      bin_spec _ cz (div_nonneg (by linarith) hwz.le) ?_ hz1⟩
    · rw [div_lt_one hwx]; linarith
    · rw [div_lt_one hwy]; linarith
    · rw [div_lt_one hwz]; linarith
  have hidx : ∀ q, q < pos.size → idx q < cx * cy * cz := fun q hq =>
    (index_spec (I q) (J q) (K q) cx cy cz (hbin q hq).1.1 (hbin q hq).2.1.1 (hbin q hq).2.2.1).1
  unfold gridOK
  rw [Bool.and_eq_true]
  constructor
  · -- widths and boxes
    rw [List.all_eq_true]
    intro c hc
    have hcells : (mkSpace true anchor width mcw pos).cells.toList = (List.range (cx * cy * cz)).map fun c =>
        ({ loc := ⟨anchor.x + (c / (cy * cz) : Nat) * (width.x / cx), anchor.y + ((c % (cy * cz)) / cz : Nat) * (width.y / cy),
                    anchor.z + (c % cz : Nat) * (width.z / cz)⟩,
           width := ⟨width.x / cx, width.y / cy, width.z / cz⟩,
           parts := (List.range pos.size).filter fun p => idx p == c } : GCell) := by
      simp [mkSpace, hcx, hcy, hcz, idx, I, J, K]
    rw [hcells] at hc
    obtain ⟨ci, hci, rfl⟩ := List.mem_map.1 hc
    have hcx' : (0 : Rat) < cx := by exact_mod_cast hx1
    have hcy' : (0 : Rat) < cy := by exact_mod_cast hy1
    have hcz' : (0 : Rat) < cz := by exact_mod_cast hz1
    simp only [Bool.and_eq_true, decide_eq_true_eq, List.all_eq_true]
    refine ⟨⟨⟨(div_pos hwx hcx').le, (div_pos hwy hcy').le⟩, (div_pos hwz hcz').le⟩, ?_⟩
    intro q hq
    rw [List.mem_filter, List.mem_range] at hq
    obtain ⟨hqn, hqi⟩ := hq
    have hqi' : idx q = ci := by simpa using hqi
    obtain ⟨⟨i1, i2, i3⟩, ⟨j1, j2, j3⟩, ⟨k1, k2, k3⟩⟩ := hbin q hqn
    obtain ⟨_, e1, e2, e3⟩ := index_spec (I q) (J q) (K q) cx cy cz i1 j1 k1
    have bx := bin_box pos[q]!.x anchor.x width.x cx (I q) hwx hx1 i2 i3
    have by' := bin_box pos[q]!.y anchor.y width.y cy (J q) hwy hy1 j2 j3
    have bz := bin_box pos[q]!.z anchor.z width.z cz (K q) hwz hz1 k2 k3
    have hs : (mkSpace true anchor width mcw pos).pos = pos := rfl
    rw [hs]
    unfold inBoxB
    simp only [Bool.and_eq_true, decide_eq_true_eq]
    rw [← hqi']
    simp only [idx] at e1 e2 e3 ⊢
    rw [e1, e2, e3]
    exact ⟨⟨⟨⟨⟨bx.1, bx.2⟩, by'.1⟩, by'.2⟩, bz.1⟩, bz.2⟩
  · -- partition
    rw [beq_iff_eq]
    have hparts : (mkSpace true anchor width mcw pos).cells.toList.flatMap (·.parts) =
        (List.range (cx * cy * cz)).flatMap fun c => (List.range pos.size).filter fun p => idx p == c := by
      simp [mkSpace, hcx, hcy, hcz, idx, I, J, K, List.flatMap_map]
    rw [hparts]
    exact sort_range_of_perm (bins_perm pos.size (cx * cy * cz) idx hidx)

/-- … hence the hypotheses `hbox` and the partition property of `KnnCorrect.knnLoop_eq_spec` hold for the grid of `Space::new` -/
theorem mkSpace_wellformed (anchor width : Q3) (mcw : Rat) (pos : Array Q3)
    (hw : 0 < width.x ∧ 0 < width.y ∧ 0 < width.z) (hm : 0 < mcw)
    (hin : ∀ q, q < pos.size →
      (anchor.x ≤ pos[q]!.x ∧ pos[q]!.x < anchor.x + width.x) ∧ (anchor.y ≤ pos[q]!.y ∧ pos[q]!.y < anchor.y + width.y) ∧
      (anchor.z ≤ pos[q]!.z ∧ pos[q]!.z < anchor.z + width.z)) :
    let s := mkSpace true anchor width mcw pos
    (∀ c ∈ s.cells.toList, (0 ≤ c.width.x ∧ 0 ≤ c.width.y ∧ 0 ≤ c.width.z) ∧ ∀ q ∈ c.parts, InBox c s.pos[q]!) ∧
    (s.cells.toList.flatMap (·.parts)) ~ List.range s.pos.size :=
  MVoro.KnnCorrect.gridOK_sound _ (mkSpace_gridOK anchor width mcw pos hw hm hin)

/-- non-vacuity: two particles in the unit box, cells of width 1/2 -/
example : gridOK (mkSpace true ⟨0, 0, 0⟩ ⟨1, 1, 1⟩ (1 / 2) #[⟨1 / 4, 1 / 4, 1 / 4⟩, ⟨3 / 4, 1 / 2, 1 / 8⟩]) = true := by
  apply mkSpace_gridOK
  · norm_num
  · norm_num
  · intro q hq
    have : q = 0 ∨ q = 1 := by simp at hq; omega
    rcases this with rfl | rfl <;> norm_num

#print axioms mkSpace_gridOK
end MVoro.GridWF
