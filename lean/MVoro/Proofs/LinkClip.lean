/-
C15 (T15.2/T15.3): **no plane is ever pinched** — link-connectedness (`Euler.LinkConn`: the triples at a plane form one
umbrella) is an invariant of clipping.  It is the hypothesis of `Euler.interior_gone`, `Euler.plane_survives_iff` and
`EulerClip.euler_preserved`; with it, Euler's relation holds for every cell the algorithm can reach (`euler_reach`).

The argument for one clip (`T` closed, `R ⊆ T` removed, the boundary of `R` a single injective cycle `succ`, `p` fresh):
* at the new plane `p` the new triples `(x, succ x, p)` are chained backwards along the cycle, so they form one umbrella because
  the cycle is one cycle (`Conn`);
* at an old plane `j` off the cycle nothing changes (no triple at `j` is removed);
* at an old plane `j` on the cycle exactly one boundary edge leaves `j` and one enters it, so the removed triples at `j` form one
  arc of its umbrella; the kept arc runs from the triple `dOut` across the outgoing boundary edge to the triple `dIn` across the
  incoming one, and the two new triples `(pred j, j, p)`, `(j, succ j, p)` close it again:
  `dOut →* dIn → (pred j, j, p) → (j, succ j, p) → dOut`.
-/
import MVoro.Proofs.EulerClip

namespace MVoro.LinkClip
open MVoro MVoro.CycleBoundary MVoro.Euler Relation

variable {T R : List Dual} {succ : Nat → Nat} {p : Nat}

theorem mem_clip_kept {d : Dual} (hd : d ∈ T) (hn : d ∉ R) : d ∈ clipDuals T R p := by
  unfold clipDuals
  exact List.mem_append_left _ (List.mem_filter.mpr ⟨hd, decide_eq_true fun r hr e => hn (e ▸ hr)⟩)

theorem mem_clip_new {e : Nat × Nat} (he : e ∈ bdry R) : newTri p e ∈ clipDuals T R p := by
  unfold clipDuals
  exact List.mem_append_right _ (List.mem_map.mpr ⟨e, he, rfl⟩)

theorem mem_clip_iff {d : Dual} : d ∈ clipDuals T R p ↔ (d ∈ T ∧ d ∉ R) ∨ ∃ e ∈ bdry R, d = newTri p e := by
  unfold clipDuals
  simp only [List.mem_append, List.mem_filter, List.mem_map, decide_eq_true_eq]
  constructor
  · rintro (⟨hd, h⟩ | ⟨e, he, rfl⟩)
    · exact Or.inl ⟨hd, fun hr => h d hr rfl⟩
    · exact Or.inr ⟨e, he, rfl⟩
  · rintro (⟨hd, h⟩ | ⟨e, he, rfl⟩)
    · exact Or.inl ⟨hd, fun r hr e => h (e ▸ hr)⟩
    · exact Or.inr ⟨e, he, rfl⟩

/-- a step between two kept triples is a step in the clipped surface -/
theorem step_kept {j : Nat} {d d' : Dual} (h : StepAt T j d d') (hn' : d' ∉ R) : StepAt (clipDuals T R p) j d d' :=
  ⟨mem_clip_kept h.1 hn', h.2⟩

/-- a path in `T` at `j` only visits triples at `j` -/
theorem hasPlane_of_step {j : Nat} {d d' : Dual} (h : StepAt T j d d') : HasPlane d' j := by
  obtain ⟨_, x, _, hx⟩ := h
  exact hasPlane_of_edge_right hx

theorem edges_newTri (x y : Nat) : (newTri p (x, y)).edges = [(x, y), (y, p), (p, x)] := rfl

/-- an edge of `T` whose owner is not removed is not an edge of the removed region -/
theorem not_mem_edgesOf_R (hT : (edgesOf T).Nodup) (hR : R ⊆ T) {d : Dual} (hd : d ∈ T) (hn : d ∉ R) {e : Nat × Nat}
    (he : e ∈ d.edges) : e ∉ edgesOf R := by
  intro h
  obtain ⟨r, hr, hre⟩ := mem_edgesOf.mp h
  exact hn (edge_unique hT hd (hR hr) he hre ▸ hr)

/-- **the umbrella at the new plane** -/
theorem link_new (hI : Inv succ R) (hC : Conn succ) (hp : ∀ d ∈ T, ¬ HasPlane d p) : LinkConn (clipDuals T R p) p := by
  -- every triple at `p` is a new one
  have hnew : ∀ d ∈ clipDuals T R p, HasPlane d p → ∃ x, succ x ≠ x ∧ d = newTri p (x, succ x) := by
    intro d hd hdp
    rcases mem_clip_iff.mp hd with ⟨hdT, _⟩ | ⟨⟨x, y⟩, he, rfl⟩
    · exact absurd hdp (hp d hdT)
    · have := (hI.1 x y).2 he
      exact ⟨x, fun h => this.2 (by rw [← this.1]; exact h.symm), by rw [this.1]⟩
  have hmem : ∀ x, succ x ≠ x → newTri p (x, succ x) ∈ clipDuals T R p :=
    fun x hx => mem_clip_new ((hI.1 x (succ x)).1 ⟨rfl, fun h => hx h.symm⟩)
  have hsupp : ∀ x, succ x ≠ x → succ (succ x) ≠ succ x := fun x hx h => hx (hI.2 h)
  -- one step backwards along the cycle
  have hstep : ∀ x, succ x ≠ x →
      StepAt (clipDuals T R p) p (newTri p (succ x, succ (succ x))) (newTri p (x, succ x)) := by
    intro x hx
    refine ⟨hmem x hx, succ x, ?_, ?_⟩ <;> simp [edges_newTri]
  have hback : ∀ k x, succ x ≠ x →
      ReflTransGen (StepAt (clipDuals T R p) p) (newTri p (succ^[k] x, succ (succ^[k] x))) (newTri p (x, succ x)) := by
    intro k
    induction k with
    | zero => intro x _; exact ReflTransGen.refl
    | succ k ih =>
      intro x hx
      have h1 := supp_iterate hI.2 hx k
      rw [Function.iterate_succ_apply']
      exact ReflTransGen.head (hstep _ h1) (ih x hx)
  intro d hd d' hd' hdp hdp'
  obtain ⟨a, ha, rfl⟩ := hnew d hd hdp
  obtain ⟨b, hb, rfl⟩ := hnew d' hd' hdp'
  obtain ⟨k, hk⟩ := hC b a hb ha
  rw [← hk]
  exact hback k b hb

/-- **the umbrella at an old plane** -/
theorem link_old (hT : Closed T) (hR : R ⊆ T) (hI : Inv succ R) (hlink : ∀ j, LinkConn T j)
    (hp : ∀ d ∈ T, ¬ HasPlane d p) {j : Nat} (hjp : j ≠ p) : LinkConn (clipDuals T R p) j := by
  obtain ⟨hout, hin, hbal⟩ := bdry_cycles_of_inv hI
  set T' := clipDuals T R p with hT'
  by_cases hsj : succ j = j
  · -- `j` is not on the boundary cycle: no new triple at `j`
    have hkept : ∀ d ∈ T', HasPlane d j → d ∈ T ∧ d ∉ R := by
      intro d hd hdj
      rcases mem_clip_iff.mp hd with h | ⟨⟨x, y⟩, he, rfl⟩
      · exact h
      · exfalso
        rcases hdj with h | h | h <;> simp only [newTri] at h
        · subst h; exact no_bdry_out hI.1 hsj y he
        · subst h
          obtain ⟨z, hz⟩ := (hbal j).2 ⟨x, he⟩
          exact no_bdry_out hI.1 hsj z hz
        · exact hjp h
    intro d hd d' hd' hdj hdj'
    obtain ⟨hdT, hdR⟩ := hkept d hd hdj
    obtain ⟨hdT', _⟩ := hkept d' hd' hdj'
    -- no triple at `j` is removed (otherwise all are, and `d` would be)
    have hnoR : ∀ e ∈ T, HasPlane e j → e ∉ R := by
      intro e heT hej heR
      exact hdR (interior_gone hT.1 hR hI.1 hsj (hlink j) heR hej d hdT hdj)
    have key : ∀ e, ReflTransGen (StepAt T j) d e → ReflTransGen (StepAt T' j) d e := by
      intro e chain
      induction chain with
      | refl => exact ReflTransGen.refl
      | tail _ hstep ih => exact ReflTransGen.tail ih (step_kept hstep (hnoR _ hstep.1 (hasPlane_of_step hstep)))
    exact key d' (hlink j d hdT d' hdT' hdj hdj')
  · -- `j` is on the cycle: one boundary edge leaves it, one enters it
    set y := succ j with hy
    have hjy : (j, y) ∈ bdry R := (hI.1 j y).1 ⟨rfl, fun h => hsj h.symm⟩
    obtain ⟨w, hwj⟩ := (hbal j).1 ⟨y, hjy⟩
    -- the kept triples across the two boundary edges
    obtain ⟨dOut, hdOutT, hdOutE⟩ := mem_edgesOf.mp (hT.2 _ (mem_edgesOf.mpr (by
      obtain ⟨r, hr, hre⟩ := mem_edgesOf.mp (mem_bdry.mp hjy).1; exact ⟨r, hR hr, hre⟩)))
    obtain ⟨dIn, hdInT, hdInE⟩ := mem_edgesOf.mp (hT.2 _ (mem_edgesOf.mpr (by
      obtain ⟨r, hr, hre⟩ := mem_edgesOf.mp (mem_bdry.mp hwj).1; exact ⟨r, hR hr, hre⟩)))
    simp only [Prod.swap] at hdOutE hdInE
    have hdOutR : dOut ∉ R := fun h => (mem_bdry.mp hjy).2 (mem_edgesOf.mpr ⟨dOut, h, hdOutE⟩)
    have hdInR : dIn ∉ R := fun h => (mem_bdry.mp hwj).2 (mem_edgesOf.mpr ⟨dIn, h, hdInE⟩)
    set N1 := newTri p (w, j) with hN1
    set N2 := newTri p (j, y) with hN2
    have hN1m : N1 ∈ T' := mem_clip_new hwj
    have hN2m : N2 ∈ T' := mem_clip_new hjy
    have s1 : StepAt T' j dIn N1 := ⟨hN1m, w, hdInE, by simp [hN1, edges_newTri]⟩
    have s2 : StepAt T' j N1 N2 := ⟨hN2m, p, by simp [hN1, edges_newTri], by simp [hN2, edges_newTri]⟩
    have s3 : StepAt T' j N2 dOut := ⟨mem_clip_kept hdOutT hdOutR, y, by simp [hN2, edges_newTri], hdOutE⟩
    -- (A) from `dOut` every kept triple at `j` is reached inside the clipped surface
    have hA : ∀ e, ReflTransGen (StepAt T j) dOut e → e ∉ R → ReflTransGen (StepAt T' j) dOut e := by
      intro e chain
      induction chain with
      | refl => intro _; exact ReflTransGen.refl
      | tail _ hstep ih =>
        rename_i a b _
        intro hb
        by_cases ha : a ∈ R
        · obtain ⟨hbT, x, hx1, hx2⟩ := hstep
          have h1 : (j, x) ∈ edgesOf R := mem_edgesOf.mpr ⟨a, ha, hx1⟩
          have h2 : (x, j) ∉ edgesOf R := not_mem_edgesOf_R hT.1 hR hbT hb hx2
          have hb' : (j, x) ∈ bdry R := mem_bdry.mpr ⟨h1, h2⟩
          have hxy : x = y := hout j x y hb' hjy
          subst hxy
          rw [edge_unique hT.1 hbT hdOutT hx2 hdOutE]
        · exact ReflTransGen.tail (ih ha) (step_kept hstep hb)
    -- (B) every kept triple at `j` reaches `dIn` inside the clipped surface
    have hB : ∀ e, ReflTransGen (StepAt T j) e dIn → e ∈ T → e ∉ R → ReflTransGen (StepAt T' j) e dIn := by
      intro e chain
      induction chain using ReflTransGen.head_induction_on with
      | refl => intro _ _; exact ReflTransGen.refl
      | @head a b hstep _ ih =>
        intro haT ha
        by_cases hb : b ∈ R
        · obtain ⟨hbT, x, hx1, hx2⟩ := hstep
          have h1 : (x, j) ∈ edgesOf R := mem_edgesOf.mpr ⟨b, hb, hx2⟩
          have h2 : (j, x) ∉ edgesOf R := not_mem_edgesOf_R hT.1 hR haT ha hx1
          have hb' : (x, j) ∈ bdry R := mem_bdry.mpr ⟨h1, by simpa using h2⟩
          have hxw : x = w := hin j x w hb' hwj
          subst hxw
          rw [edge_unique hT.1 haT hdInT hx1 hdInE]
        · exact ReflTransGen.head (step_kept hstep hb) (ih hstep.1 hb)
    have hdOutj : HasPlane dOut j := hasPlane_of_edge_right hdOutE
    have hdInj : HasPlane dIn j := hasPlane_of_edge_left hdInE
    -- classification of the triples at `j`
    have hclass : ∀ d ∈ T', HasPlane d j → (d ∈ T ∧ d ∉ R) ∨ d = N1 ∨ d = N2 := by
      intro d hd hdj
      rcases mem_clip_iff.mp hd with h | ⟨⟨a, b⟩, he, rfl⟩
      · exact Or.inl h
      · rcases hdj with h | h | h <;> simp only [newTri] at h
        · subst h; right; right; rw [hN2, hout j b y he hjy]
        · subst h; right; left; rw [hN1, hin j a w he hwj]
        · exact absurd h hjp
    have toN1 : ∀ d ∈ T', HasPlane d j → ReflTransGen (StepAt T' j) d N1 := by
      intro d hd hdj
      rcases hclass d hd hdj with ⟨hdT, hdR⟩ | rfl | rfl
      · exact ReflTransGen.tail (hB d (hlink j d hdT dIn hdInT hdj hdInj) hdT hdR) s1
      · exact ReflTransGen.refl
      · exact ReflTransGen.head s3 (ReflTransGen.tail (hB dOut (hlink j dOut hdOutT dIn hdInT hdOutj hdInj) hdOutT hdOutR) s1)
    have fromN1 : ∀ d ∈ T', HasPlane d j → ReflTransGen (StepAt T' j) N1 d := by
      intro d hd hdj
      rcases hclass d hd hdj with ⟨hdT, hdR⟩ | rfl | rfl
      · exact ReflTransGen.head s2 (ReflTransGen.head s3 (hA d (hlink j dOut hdOutT d hdT hdOutj hdj) hdR))
      · exact ReflTransGen.refl
      · exact ReflTransGen.single s2
    intro d hd d' hd' hdj hdj'
    exact (toN1 d hd hdj).trans (fromN1 d' hd' hdj')

/-- **link-connectedness is preserved by a clip** -/
theorem linkConn_preserved (hT : Closed T) (hR : R ⊆ T) (hI : Inv succ R) (hC : Conn succ) (hlink : ∀ j, LinkConn T j)
    (hp : ∀ d ∈ T, ¬ HasPlane d p) : ∀ j, LinkConn (clipDuals T R p) j := by
  intro j
  by_cases hjp : j = p
  · subst hjp; exact link_new hI hC hp
  · exact link_old hT hR hI hlink hp hjp

#print axioms MVoro.LinkClip.linkConn_preserved
end MVoro.LinkClip
