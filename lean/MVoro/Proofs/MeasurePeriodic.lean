/-
C02 (T02.2, periodic boxes): for generators that are pairwise different modulo a locally finite lattice `Λ`
(an additive subgroup of a finite-dimensional inner-product space in which every bounded set holds finitely many lattice
points), the lattice-periodic cells

  `VorP Λ G i = {x | ∀ j, ∀ l ∈ Λ, dist x (G i) ≤ dist x (G j + l)}`

(nearest among all generators AND all their lattice images, own images included) have measures that sum to the measure of
any fundamental domain `F` of the lattice: `sum_measure_eq_periodic`.  The union of the cells is itself a fundamental domain
(`isAddFundamentalDomain_iUnion_VorP`): every point has a nearest image, and two translates overlap in a null set.
For the box lattice `Λ = ⊕ ℤ · wₐ eₐ` the box `∏ [0, wₐ)` is a fundamental domain (`ZSpan.isAddFundamentalDomain`) and
bounded sets hold finitely many lattice points (`ZSpan.setFinite_inter`): `sum_measure_eq_box_lattice`.
-/
import MVoro.Proofs.MeasureTiling
import Mathlib.MeasureTheory.Group.FundamentalDomain
import Mathlib.Algebra.Module.ZLattice.Basic

namespace MVoro.MeasurePeriodic
open MVoro.VorSet MVoro.MeasureTiling MeasureTheory Set
open scoped Pointwise

set_option linter.unusedSectionVars false

variable {E : Type*} [NormedAddCommGroup E] [InnerProductSpace ℝ E] [FiniteDimensional ℝ E]
  [MeasurableSpace E] [BorelSpace E]

/-- the lattice-periodic cell of generator `i`: nearest among all generators and all their lattice images -/
def VorP (Λ : AddSubgroup E) {ι : Type*} (G : ι → E) (i : ι) : Set E :=
  {x | ∀ j, ∀ l : Λ, dist x (G i) ≤ dist x (G j + l)}

variable (Λ : AddSubgroup E) {ι : Type*} (G : ι → E)

theorem isClosed_VorP (i : ι) : IsClosed (VorP Λ G i) := by
  have : VorP Λ G i = ⋂ j, ⋂ l : Λ, {x | dist x (G i) ≤ dist x (G j + l)} := by
    ext x; simp [VorP]
  rw [this]
  exact isClosed_iInter fun j => isClosed_iInter fun l =>
    isClosed_le (continuous_id.dist continuous_const) (continuous_id.dist continuous_const)

/-- translation covariance: a point lies in the translate `l + cell i` iff its nearest image is `G i + l` -/
theorem mem_vadd_VorP (i : ι) (l : Λ) (x : E) :
    x ∈ (l +ᵥ VorP Λ G i) ↔ ∀ j, ∀ l' : Λ, dist x (G i + l) ≤ dist x (G j + l') := by
  rw [Set.mem_vadd_set]
  constructor
  · rintro ⟨y, hy, rfl⟩ j l'
    have := hy j (l' - l)
    simp only [AddSubgroup.vadd_def, vadd_eq_add] at *
    have e1 : dist ((l : E) + y) (G i + l) = dist y (G i) := by
      rw [dist_eq_norm, dist_eq_norm]; congr 1; abel
    have e2 : dist ((l : E) + y) (G j + l') = dist y (G j + ((l' - l : Λ) : E)) := by
      rw [dist_eq_norm, dist_eq_norm]; congr 1
      simp only [AddSubgroup.coe_sub]; abel
    rw [e1, e2]; exact this
  · intro h
    refine ⟨x - l, ?_, ?_⟩
    · intro j l'
      have := h j (l' + l)
      have e1 : dist (x - (l : E)) (G i) = dist x (G i + l) := by
        rw [dist_eq_norm, dist_eq_norm]; congr 1; abel
      have e2 : dist (x - (l : E)) (G j + l') = dist x (G j + ((l' + l : Λ) : E)) := by
        rw [dist_eq_norm, dist_eq_norm]; congr 1
        simp only [AddSubgroup.coe_add]; abel
      rw [e1, e2]; exact this
    · simp only [AddSubgroup.vadd_def, vadd_eq_add]; abel

/-- every point has a nearest image, if the lattice is locally finite -/
theorem exists_nearest_image [Fintype ι] [Nonempty ι]
    (hfin : ∀ s : Set E, Bornology.IsBounded s → (s ∩ (Λ : Set E)).Finite) (x : E) :
    ∃ i, ∃ l : Λ, ∀ j, ∀ l' : Λ, dist x (G i + l) ≤ dist x (G j + l') := by
  classical
  obtain ⟨i0⟩ := ‹Nonempty ι›
  set R := dist x (G i0 + ((0 : Λ) : E)) with hR
  -- the finitely many images within distance `R`
  have hfinj : ∀ j, {l : Λ | dist x (G j + l) ≤ R}.Finite := by
    intro j
    have hb : Bornology.IsBounded (Metric.closedBall (x - G j) R) := Metric.isBounded_closedBall
    have := hfin _ hb
    refine Set.Finite.of_finite_image (f := fun l : Λ => (l : E)) (this.subset ?_) (fun a _ b _ h => Subtype.ext h)
    rintro _ ⟨l, hl, rfl⟩
    refine ⟨?_, l.2⟩
    rw [Metric.mem_closedBall, dist_comm]
    have : dist (x - G j) (l : E) = dist x (G j + l) := by
      rw [dist_eq_norm, dist_eq_norm]; congr 1; abel
    rw [this]; exact hl
  let T : Set (ι × Λ) := {p | dist x (G p.1 + p.2) ≤ R}
  have hT : T.Finite := by
    have : T ⊆ ⋃ j, (fun l => (j, l)) '' {l : Λ | dist x (G j + l) ≤ R} := by
      rintro ⟨j, l⟩ h
      exact mem_iUnion.mpr ⟨j, l, h, rfl⟩
    exact (Set.finite_iUnion fun j => (hfinj j).image _).subset this
  have hne : T.Nonempty := ⟨(i0, 0), (le_refl R : dist x (G i0 + ((0 : Λ) : E)) ≤ R)⟩
  obtain ⟨p, hpT, hmin⟩ := hT.toFinset.exists_min_image (fun p => dist x (G p.1 + p.2)) (by simpa using hne)
  refine ⟨p.1, p.2, fun j l' => ?_⟩
  by_cases h : (j, l') ∈ T
  · exact hmin (j, l') (by simpa using h)
  · have h1 : R < dist x (G j + l') := not_le.mp h
    have h2 : dist x (G p.1 + p.2) ≤ R := by
      have : p ∈ T := by simpa using hpT
      exact this
    linarith

variable {Λ G}

/-- two different images are different points when the generators are pairwise different modulo the lattice -/
theorem image_ne (hinj : ∀ i j (l : Λ), G i = G j + l → i = j ∧ l = 0) {i j : ι} {l l' : Λ} (h : (i, l) ≠ (j, l')) :
    G i + (l : E) ≠ G j + (l' : E) := by
  intro he
  have : G i = G j + ((l' - l : Λ) : E) := by
    simp only [AddSubgroup.coe_sub]
    have := congrArg (· - (l : E)) he
    simp only [add_sub_cancel_right] at this
    rw [this]; abel
  obtain ⟨hij, hl⟩ := hinj i j (l' - l) this
  apply h
  rw [hij, sub_eq_zero.mp hl]

/-- translates of cells that belong to different images overlap in a null set -/
theorem vadd_overlap_null (hinj : ∀ i j (l : Λ), G i = G j + l → i = j ∧ l = 0) (μ : Measure E) [μ.IsAddHaarMeasure]
    {i j : ι} {l l' : Λ} (h : (i, l) ≠ (j, l')) :
    μ ((l +ᵥ VorP Λ G i) ∩ (l' +ᵥ VorP Λ G j)) = 0 := by
  have hne := image_ne hinj h
  have hsub : (l +ᵥ VorP Λ G i) ∩ (l' +ᵥ VorP Λ G j) ⊆
      (AffineSubspace.perpBisector (G i + (l : E)) (G j + (l' : E)) : Set E) := by
    intro x hx
    have h1 := (mem_vadd_VorP Λ G i l x).mp hx.1 j l'
    have h2 := (mem_vadd_VorP Λ G j l' x).mp hx.2 i l
    exact AffineSubspace.mem_perpBisector_iff_dist_eq.mpr (le_antisymm h1 h2)
  have htop : AffineSubspace.perpBisector (G i + (l : E)) (G j + (l' : E)) ≠ ⊤ := by
    rw [Ne, AffineSubspace.perpBisector_eq_top]; exact hne
  exact measure_mono_null hsub (Measure.addHaar_affineSubspace μ _ htop)

theorem zero_vadd_VorP (i : ι) : ((0 : Λ) +ᵥ VorP Λ G i) = VorP Λ G i := zero_vadd _ _

/-- the union of the lattice-periodic cells is a fundamental domain of the lattice -/
theorem isAddFundamentalDomain_iUnion_VorP [Fintype ι] [Nonempty ι] [Countable Λ]
    (hinj : ∀ i j (l : Λ), G i = G j + l → i = j ∧ l = 0)
    (hfin : ∀ s : Set E, Bornology.IsBounded s → (s ∩ (Λ : Set E)).Finite)
    (μ : Measure E) [μ.IsAddHaarMeasure] :
    IsAddFundamentalDomain Λ (⋃ i, VorP Λ G i) μ := by
  refine ⟨?_, ?_, ?_⟩
  · exact (MeasurableSet.iUnion fun i => (isClosed_VorP Λ G i).measurableSet).nullMeasurableSet
  · refine Filter.Eventually.of_forall fun x => ?_
    obtain ⟨i, l, h⟩ := exists_nearest_image Λ G hfin x
    refine ⟨-l, mem_iUnion.mpr ⟨i, ?_⟩⟩
    intro j l'
    have := h j (l' + l)
    have e1 : dist ((-l : Λ) +ᵥ x) (G i) = dist x (G i + l) := by
      simp only [AddSubgroup.vadd_def, vadd_eq_add, AddSubgroup.coe_neg]
      rw [dist_eq_norm, dist_eq_norm]; congr 1; abel
    have e2 : dist ((-l : Λ) +ᵥ x) (G j + l') = dist x (G j + ((l' + l : Λ) : E)) := by
      simp only [AddSubgroup.vadd_def, vadd_eq_add, AddSubgroup.coe_neg, AddSubgroup.coe_add]
      rw [dist_eq_norm, dist_eq_norm]; congr 1; abel
    rw [e1, e2]; exact this
  · intro l l' hll
    show μ ((l +ᵥ ⋃ i, VorP Λ G i) ∩ (l' +ᵥ ⋃ i, VorP Λ G i)) = 0
    rw [Set.vadd_set_iUnion, Set.vadd_set_iUnion, Set.iUnion_inter]
    refine measure_iUnion_null fun i => ?_
    rw [Set.inter_iUnion]
    refine measure_iUnion_null fun j => ?_
    exact vadd_overlap_null hinj μ (fun h => hll (Prod.mk.inj h).2)

/-- **C02, periodic boxes**: the measures of the lattice-periodic cells sum to the measure of a fundamental domain of the
lattice (the box) -/
theorem sum_measure_eq_periodic [Fintype ι] [Nonempty ι] [Countable Λ]
    (hinj : ∀ i j (l : Λ), G i = G j + l → i = j ∧ l = 0)
    (hfin : ∀ s : Set E, Bornology.IsBounded s → (s ∩ (Λ : Set E)).Finite)
    (μ : Measure E) [μ.IsAddHaarMeasure] (F : Set E) (hF : IsAddFundamentalDomain Λ F μ) :
    ∑ i, μ (VorP Λ G i) = μ F := by
  have hS := isAddFundamentalDomain_iUnion_VorP hinj hfin μ
  rw [← hS.measure_eq hF]
  have hdis : Pairwise (Function.onFun (AEDisjoint μ) fun i => VorP Λ G i) := by
    intro i j hij
    have := vadd_overlap_null hinj μ (i := i) (j := j) (l := (0 : Λ)) (l' := (0 : Λ)) (fun h => hij (Prod.mk.inj h).1)
    rwa [zero_vadd_VorP, zero_vadd_VorP] at this
  rw [measure_iUnion₀ hdis (fun i => (isClosed_VorP Λ G i).measurableSet.nullMeasurableSet), tsum_fintype]

/-- **C02, periodic boxes, concretely**: for the lattice spanned by a basis `b` (for a box: `b a = wₐ eₐ`) the measures of
the periodic cells sum to the measure of the half-open parallelepiped `{x | ∀ a, 0 ≤ coordinate a of x < 1}` spanned by `b`
— the box -/
theorem sum_measure_eq_box_lattice {κ : Type*} [Fintype κ] (b : Module.Basis κ ℝ E) {ι : Type*} [Fintype ι] [Nonempty ι]
    (G : ι → E)
    (hinj : ∀ i j (l : (Submodule.span ℤ (Set.range b)).toAddSubgroup), G i = G j + l → i = j ∧ l = 0)
    (μ : Measure E) [μ.IsAddHaarMeasure] :
    ∑ i, μ (VorP (Submodule.span ℤ (Set.range b)).toAddSubgroup G i) = μ (ZSpan.fundamentalDomain b) := by
  have : Countable (Submodule.span ℤ (Set.range b)).toAddSubgroup :=
    inferInstanceAs (Countable (Submodule.span ℤ (Set.range b)))
  refine sum_measure_eq_periodic hinj (fun s hs => ?_) μ _ (ZSpan.isAddFundamentalDomain' b μ)
  exact ZSpan.setFinite_inter b hs

/-- non-vacuity, and the single-generator case of C05: the periodic cell of a single generator has the measure of the box -/
example {κ : Type*} [Fintype κ] (b : Module.Basis κ ℝ E) (g : E) (μ : Measure E) [μ.IsAddHaarMeasure] :
    μ (VorP (Submodule.span ℤ (Set.range b)).toAddSubgroup (fun _ : Fin 1 => g) 0) = μ (ZSpan.fundamentalDomain b) := by
  have := sum_measure_eq_box_lattice b (fun _ : Fin 1 => g)
    (fun i j l h => ⟨Subsingleton.elim _ _, by
      have : (l : E) = 0 := by simpa using h.symm
      exact Subtype.ext this⟩) μ
  simpa using this

end MVoro.MeasurePeriodic
