/-
C19: the public geometry helpers (`src/geometry.rs`, reference model `MVoro.Ref.*`) satisfy their
defining equations over the reals.
-/
import MVoro.Model.Geom
import Mathlib.Analysis.Real.Sqrt
import Mathlib.Tactic.Ring
import Mathlib.Tactic.FieldSimp
import Mathlib.Tactic.Linarith
import Mathlib.Tactic.Positivity
import Mathlib.Tactic.NormNum
import Mathlib.Tactic.LinearCombination

namespace MVoro.GeomHelpers

open MVoro Classical

set_option linter.unusedSimpArgs false
set_option linter.unusedVariables false

/-- the real numbers as scalar type of the reference model -/
noncomputable instance instScalarReal : Scalar ℝ where
  sqrt := Real.sqrt
  abs := fun x => |x|
  signum := fun x => if 0 ≤ x then 1 else -1
  lit := fun m e => (m : ℝ) / 10 ^ e
  lt := fun a b => decide (a < b)
  le := fun a b => decide (a ≤ b)

/-! ### component lemmas -/

@[simp] theorem add_x (a b : V3 ℝ) : (a + b).x = a.x + b.x := rfl
@[simp] theorem add_y (a b : V3 ℝ) : (a + b).y = a.y + b.y := rfl
@[simp] theorem add_z (a b : V3 ℝ) : (a + b).z = a.z + b.z := rfl
@[simp] theorem sub_x (a b : V3 ℝ) : (a - b).x = a.x - b.x := rfl
@[simp] theorem sub_y (a b : V3 ℝ) : (a - b).y = a.y - b.y := rfl
@[simp] theorem sub_z (a b : V3 ℝ) : (a - b).z = a.z - b.z := rfl
@[simp] theorem smul_x (k : ℝ) (a : V3 ℝ) : (V3.smul k a).x = k * a.x := rfl
@[simp] theorem smul_y (k : ℝ) (a : V3 ℝ) : (V3.smul k a).y = k * a.y := rfl
@[simp] theorem smul_z (k : ℝ) (a : V3 ℝ) : (V3.smul k a).z = k * a.z := rfl
@[simp] theorem cross_x (a b : V3 ℝ) : (V3.cross a b).x = a.y * b.z - b.y * a.z := rfl
@[simp] theorem cross_y (a b : V3 ℝ) : (V3.cross a b).y = a.z * b.x - b.z * a.x := rfl
@[simp] theorem cross_z (a b : V3 ℝ) : (V3.cross a b).z = a.x * b.y - b.x * a.y := rfl

theorem V3.ext' {a b : V3 ℝ} (hx : a.x = b.x) (hy : a.y = b.y) (hz : a.z = b.z) : a = b := by
  cases a; cases b; simp_all

theorem dot_def (a b : V3 ℝ) : V3.dot a b = a.x * b.x + a.y * b.y + a.z * b.z := rfl
theorem norm2_def (a : V3 ℝ) : V3.norm2 a = a.x * a.x + a.y * a.y + a.z * a.z := rfl
theorem distance2_def (a b : V3 ℝ) :
    V3.distance2 a b = (a.x - b.x) * (a.x - b.x) + (a.y - b.y) * (a.y - b.y) + (a.z - b.z) * (a.z - b.z) := rfl
theorem det3cols_def (a b c : V3 ℝ) :
    det3cols a b c = c.x * (a.y * b.z - b.y * a.z) + c.y * (a.z * b.x - b.z * a.x) + c.z * (a.x * b.y - b.x * a.y) := rfl

theorem norm2_nonneg (a : V3 ℝ) : 0 ≤ V3.norm2 a := by
  rw [norm2_def]; nlinarith [mul_self_nonneg a.x, mul_self_nonneg a.y, mul_self_nonneg a.z]

theorem distance2_nonneg (a b : V3 ℝ) : 0 ≤ V3.distance2 a b := norm2_nonneg _

/-! ### T19.1 intersection of three planes -/

theorem intersectPlanes_x (p0 p1 p2 : Plane ℝ) :
    (Ref.intersectPlanes p0 p1 p2).x =
      (V3.dot p0.p p0.n * (V3.cross p1.n p2.n).x + V3.dot p1.p p1.n * (V3.cross p2.n p0.n).x
        + V3.dot p2.p p2.n * (V3.cross p0.n p1.n).x) / det3cols p0.n p1.n p2.n := rfl
theorem intersectPlanes_y (p0 p1 p2 : Plane ℝ) :
    (Ref.intersectPlanes p0 p1 p2).y =
      (V3.dot p0.p p0.n * (V3.cross p1.n p2.n).y + V3.dot p1.p p1.n * (V3.cross p2.n p0.n).y
        + V3.dot p2.p p2.n * (V3.cross p0.n p1.n).y) / det3cols p0.n p1.n p2.n := rfl
theorem intersectPlanes_z (p0 p1 p2 : Plane ℝ) :
    (Ref.intersectPlanes p0 p1 p2).z =
      (V3.dot p0.p p0.n * (V3.cross p1.n p2.n).z + V3.dot p1.p p1.n * (V3.cross p2.n p0.n).z
        + V3.dot p2.p p2.n * (V3.cross p0.n p1.n).z) / det3cols p0.n p1.n p2.n := rfl

/-- T19.1: for non-degenerate normals the point returned by `intersect_planes` lies on all three planes. -/
theorem intersectPlanes_on (p0 p1 p2 : Plane ℝ) (hdet : det3cols p0.n p1.n p2.n ≠ 0) :
    V3.dot p0.n (Ref.intersectPlanes p0 p1 p2 - p0.p) = 0 ∧
    V3.dot p1.n (Ref.intersectPlanes p0 p1 p2 - p1.p) = 0 ∧
    V3.dot p2.n (Ref.intersectPlanes p0 p1 p2 - p2.p) = 0 := by
  refine ⟨?_, ?_, ?_⟩ <;>
  · simp only [dot_def, sub_x, sub_y, sub_z, intersectPlanes_x, intersectPlanes_y, intersectPlanes_z,
      cross_x, cross_y, cross_z]
    generalize hD : det3cols p0.n p1.n p2.n = D at hdet ⊢
    field_simp
    rw [← hD, det3cols_def]
    ring

/-- T19.1: a point on all three planes is the one returned by `intersect_planes`. -/
theorem intersectPlanes_unique (p0 p1 p2 : Plane ℝ) (hdet : det3cols p0.n p1.n p2.n ≠ 0) (q : V3 ℝ)
    (h0 : V3.dot p0.n (q - p0.p) = 0) (h1 : V3.dot p1.n (q - p1.p) = 0)
    (h2 : V3.dot p2.n (q - p2.p) = 0) : q = Ref.intersectPlanes p0 p1 p2 := by
  simp only [dot_def, sub_x, sub_y, sub_z] at h0 h1 h2
  apply V3.ext'
  · simp only [intersectPlanes_x, dot_def, cross_x, cross_y, cross_z]
    rw [det3cols_def] at hdet ⊢
    rw [eq_div_iff hdet]
    linear_combination (p1.n.y * p2.n.z - p2.n.y * p1.n.z) * h0
      + (p2.n.y * p0.n.z - p0.n.y * p2.n.z) * h1 + (p0.n.y * p1.n.z - p1.n.y * p0.n.z) * h2
  · simp only [intersectPlanes_y, dot_def, cross_x, cross_y, cross_z]
    rw [det3cols_def] at hdet ⊢
    rw [eq_div_iff hdet]
    linear_combination (p1.n.z * p2.n.x - p2.n.z * p1.n.x) * h0
      + (p2.n.z * p0.n.x - p0.n.z * p2.n.x) * h1 + (p0.n.z * p1.n.x - p1.n.z * p0.n.x) * h2
  · simp only [intersectPlanes_z, dot_def, cross_x, cross_y, cross_z]
    rw [det3cols_def] at hdet ⊢
    rw [eq_div_iff hdet]
    linear_combination (p1.n.x * p2.n.y - p2.n.x * p1.n.y) * h0
      + (p2.n.x * p0.n.y - p0.n.x * p2.n.y) * h1 + (p0.n.x * p1.n.y - p1.n.x * p0.n.y) * h2

/-! ### T19.2 projections -/

theorem scalar_sqrt (x : ℝ) : Scalar.sqrt x = Real.sqrt x := rfl
theorem scalar_abs (x : ℝ) : Scalar.abs x = |x| := rfl
theorem scalar_signum (x : ℝ) : Scalar.signum x = if 0 ≤ x then (1 : ℝ) else -1 := rfl
theorem scalar_lit (m e : ℕ) : (Scalar.lit m e : ℝ) = (m : ℝ) / 10 ^ e := rfl
theorem scalar_lt (a b : ℝ) : Scalar.lt a b = decide (a < b) := rfl
theorem scalar_le (a b : ℝ) : Scalar.le a b = decide (a ≤ b) := rfl

theorem dot_comm (a b : V3 ℝ) : V3.dot a b = V3.dot b a := by
  simp only [dot_def]; ring

theorem projectOnto_x (pl : Plane ℝ) (q : V3 ℝ) :
    (Ref.projectOnto pl q).x = q.x + 1 / V3.dot pl.n pl.n * (V3.dot (pl.p - q) pl.n * pl.n.x) := by
  show q.x + ((1 : ℕ) : ℝ) / V3.dot pl.n pl.n * (V3.dot (pl.p - q) pl.n * pl.n.x) = _
  rw [Nat.cast_one]
theorem projectOnto_y (pl : Plane ℝ) (q : V3 ℝ) :
    (Ref.projectOnto pl q).y = q.y + 1 / V3.dot pl.n pl.n * (V3.dot (pl.p - q) pl.n * pl.n.y) := by
  show q.y + ((1 : ℕ) : ℝ) / V3.dot pl.n pl.n * (V3.dot (pl.p - q) pl.n * pl.n.y) = _
  rw [Nat.cast_one]
theorem projectOnto_z (pl : Plane ℝ) (q : V3 ℝ) :
    (Ref.projectOnto pl q).z = q.z + 1 / V3.dot pl.n pl.n * (V3.dot (pl.p - q) pl.n * pl.n.z) := by
  show q.z + ((1 : ℕ) : ℝ) / V3.dot pl.n pl.n * (V3.dot (pl.p - q) pl.n * pl.n.z) = _
  rw [Nat.cast_one]

/-- T19.2: the displacement of `Plane::project_onto` is the explicit multiple `((p - x)·n / n·n)` of the normal. -/
theorem projectOnto_parallel (pl : Plane ℝ) (q : V3 ℝ) :
    Ref.projectOnto pl q - q = V3.smul (V3.dot (pl.p - q) pl.n / V3.dot pl.n pl.n) pl.n := by
  apply V3.ext' <;>
  · simp only [sub_x, sub_y, sub_z, smul_x, smul_y, smul_z, projectOnto_x, projectOnto_y, projectOnto_z]
    ring

/-- T19.2: for a non-zero normal `Plane::project_onto` returns a point of the plane. -/
theorem projectOnto_on_plane (pl : Plane ℝ) (q : V3 ℝ) (hn : V3.dot pl.n pl.n ≠ 0) :
    V3.dot pl.n (Ref.projectOnto pl q - pl.p) = 0 := by
  generalize hD : V3.dot pl.n pl.n = D at hn
  have hD' := hD
  simp only [dot_def] at hD'
  simp only [dot_def, sub_x, sub_y, sub_z, projectOnto_x, projectOnto_y, projectOnto_z, ← hD']
  rw [hD']
  field_simp
  rw [← hD']
  ring

/-- T19.2: `Plane::project_onto` fixes the points of the plane. -/
theorem projectOnto_fixes (pl : Plane ℝ) (q : V3 ℝ) (hq : V3.dot pl.n (q - pl.p) = 0) :
    Ref.projectOnto pl q = q := by
  have h : V3.dot (pl.p - q) pl.n = 0 := by
    simp only [dot_def, sub_x, sub_y, sub_z] at hq ⊢
    linear_combination -hq
  apply V3.ext' <;>
  · simp only [projectOnto_x, projectOnto_y, projectOnto_z, h]
    ring

/-- T19.2: `Plane::project_onto` is idempotent. -/
theorem projectOnto_idem (pl : Plane ℝ) (q : V3 ℝ) :
    Ref.projectOnto pl (Ref.projectOnto pl q) = Ref.projectOnto pl q := by
  by_cases hn : V3.dot pl.n pl.n = 0
  · apply V3.ext' <;>
    · simp only [projectOnto_x (q := Ref.projectOnto pl q), projectOnto_y (q := Ref.projectOnto pl q),
        projectOnto_z (q := Ref.projectOnto pl q), hn]
      simp
  · exact projectOnto_fixes pl _ (projectOnto_on_plane pl q hn)

theorem det3cols_cross (a b : V3 ℝ) : det3cols a b (V3.cross a b) = V3.norm2 (V3.cross a b) := rfl

/-- T19.2: for non-parallel planes `Plane::project_onto_intersection` returns a point on both planes whose
displacement from `point` is orthogonal to the direction of the intersection line. -/
theorem projectOntoIntersection_on (self other : Plane ℝ) (point : V3 ℝ)
    (h : V3.norm2 (V3.cross self.n other.n) ≠ 0) :
    V3.dot self.n (Ref.projectOntoIntersection self other point - self.p) = 0 ∧
    V3.dot other.n (Ref.projectOntoIntersection self other point - other.p) = 0 ∧
    V3.dot (Ref.projectOntoIntersection self other point - point) (V3.cross self.n other.n) = 0 := by
  have := intersectPlanes_on self other ⟨V3.cross self.n other.n, point⟩
    (by rw [det3cols_cross]; exact h)
  refine ⟨this.1, this.2.1, ?_⟩
  rw [dot_comm]
  exact this.2.2

/-- T19.2: `Plane::project_onto_intersection` is idempotent for non-parallel planes. -/
theorem projectOntoIntersection_idem (self other : Plane ℝ) (point : V3 ℝ)
    (h : V3.norm2 (V3.cross self.n other.n) ≠ 0) :
    Ref.projectOntoIntersection self other (Ref.projectOntoIntersection self other point)
      = Ref.projectOntoIntersection self other point := by
  obtain ⟨h0, h1, -⟩ := projectOntoIntersection_on self other point h
  symm
  refine intersectPlanes_unique self other ⟨V3.cross self.n other.n, _⟩
    (by rw [det3cols_cross]; exact h) _ h0 h1 ?_
  simp only [dot_def, sub_x, sub_y, sub_z]
  ring

/-! ### T19.3 signed volume and area -/

theorem signedVolumeTet_def (v0 v1 v2 v3 : V3 ℝ) :
    Ref.signedVolumeTet v0 v1 v2 v3 = det3cols (v1 - v0) (v2 - v0) (v3 - v0) / 6 := by
  show det3cols (v1 - v0) (v2 - v0) (v3 - v0) / ((6 : ℕ) : ℝ) = _
  rw [Nat.cast_ofNat]

/-- T19.3: exchanging `v0` and `v1` negates `signed_volume_tet`. -/
theorem signedVolumeTet_swap01 (v0 v1 v2 v3 : V3 ℝ) :
    Ref.signedVolumeTet v1 v0 v2 v3 = -Ref.signedVolumeTet v0 v1 v2 v3 := by
  simp only [signedVolumeTet_def, det3cols_def, sub_x, sub_y, sub_z]; ring

/-- T19.3: exchanging `v1` and `v2` negates `signed_volume_tet`. -/
theorem signedVolumeTet_swap12 (v0 v1 v2 v3 : V3 ℝ) :
    Ref.signedVolumeTet v0 v2 v1 v3 = -Ref.signedVolumeTet v0 v1 v2 v3 := by
  simp only [signedVolumeTet_def, det3cols_def, sub_x, sub_y, sub_z]; ring

/-- T19.3: exchanging `v0` and `v2` negates `signed_volume_tet`. -/
theorem signedVolumeTet_swap02 (v0 v1 v2 v3 : V3 ℝ) :
    Ref.signedVolumeTet v2 v1 v0 v3 = -Ref.signedVolumeTet v0 v1 v2 v3 := by
  simp only [signedVolumeTet_def, det3cols_def, sub_x, sub_y, sub_z]; ring

/-- T19.3: exchanging `v2` and `v3` negates `signed_volume_tet`. -/
theorem signedVolumeTet_swap23 (v0 v1 v2 v3 : V3 ℝ) :
    Ref.signedVolumeTet v0 v1 v3 v2 = -Ref.signedVolumeTet v0 v1 v2 v3 := by
  simp only [signedVolumeTet_def, det3cols_def, sub_x, sub_y, sub_z]; ring

/-- T19.3: exchanging `v1` and `v3` negates `signed_volume_tet`. -/
theorem signedVolumeTet_swap13 (v0 v1 v2 v3 : V3 ℝ) :
    Ref.signedVolumeTet v0 v3 v2 v1 = -Ref.signedVolumeTet v0 v1 v2 v3 := by
  simp only [signedVolumeTet_def, det3cols_def, sub_x, sub_y, sub_z]; ring

/-- T19.3: exchanging `v0` and `v3` negates `signed_volume_tet`. -/
theorem signedVolumeTet_swap03 (v0 v1 v2 v3 : V3 ℝ) :
    Ref.signedVolumeTet v3 v1 v2 v0 = -Ref.signedVolumeTet v0 v1 v2 v3 := by
  simp only [signedVolumeTet_def, det3cols_def, sub_x, sub_y, sub_z]; ring

/-- T19.3: the unit corner tetrahedron (v0 v1 v2 counter-clockwise seen from v3) has signed volume `+1/6`. -/
theorem signedVolumeTet_example :
    Ref.signedVolumeTet (⟨0, 0, 0⟩ : V3 ℝ) ⟨1, 0, 0⟩ ⟨0, 1, 0⟩ ⟨0, 0, 1⟩ = 1 / 6 := by
  simp only [signedVolumeTet_def, det3cols_def, sub_x, sub_y, sub_z]; norm_num

/-- T19.3: `signed_volume_tet` is positive iff `v3` is on the positive side of the oriented triangle `v0 v1 v2`. -/
theorem signedVolumeTet_pos_iff (v0 v1 v2 v3 : V3 ℝ) :
    0 < Ref.signedVolumeTet v0 v1 v2 v3 ↔ 0 < V3.dot (V3.cross (v1 - v0) (v2 - v0)) (v3 - v0) := by
  rw [signedVolumeTet_def, show det3cols (v1 - v0) (v2 - v0) (v3 - v0)
      = V3.dot (V3.cross (v1 - v0) (v2 - v0)) (v3 - v0) from dot_comm _ _]
  constructor
  · intro h; linarith
  · intro h; linarith

/-- T19.3: `signed_volume_tet` is one sixth of the triple product. -/
theorem signedVolumeTet_eq (v0 v1 v2 v3 : V3 ℝ) :
    Ref.signedVolumeTet v0 v1 v2 v3 = V3.dot (V3.cross (v1 - v0) (v2 - v0)) (v3 - v0) / 6 := by
  rw [signedVolumeTet_def, show det3cols (v1 - v0) (v2 - v0) (v3 - v0)
      = V3.dot (V3.cross (v1 - v0) (v2 - v0)) (v3 - v0) from dot_comm _ _]

theorem signedAreaTri_def (v0 v1 v2 t : V3 ℝ) :
    Ref.signedAreaTri v0 v1 v2 t =
      Real.sqrt (V3.norm2 (V3.smul (1 / 2) (V3.cross (v1 - v0) (v2 - v0)))) *
        (if 0 ≤ V3.dot (t - v0) (V3.smul (1 / 2) (V3.cross (v1 - v0) (v2 - v0))) then 1 else -1) := by
  show Real.sqrt (V3.norm2 (V3.smul (((1 : ℕ) : ℝ) / ((2 : ℕ) : ℝ)) (V3.cross (v1 - v0) (v2 - v0)))) *
        (if 0 ≤ V3.dot (t - v0) (V3.smul (((1 : ℕ) : ℝ) / ((2 : ℕ) : ℝ)) (V3.cross (v1 - v0) (v2 - v0))) then 1 else -1) = _
  rw [Nat.cast_one, Nat.cast_ofNat]

theorem norm2_smul (k : ℝ) (a : V3 ℝ) : V3.norm2 (V3.smul k a) = k ^ 2 * V3.norm2 a := by
  simp only [norm2_def, smul_x, smul_y, smul_z]; ring

theorem dot_smul_right (k : ℝ) (a b : V3 ℝ) : V3.dot a (V3.smul k b) = k * V3.dot a b := by
  simp only [dot_def, smul_x, smul_y, smul_z]; ring

/-- T19.3: `signed_area_tri` is `±½‖(v1-v0)×(v2-v0)‖`, with `+` iff the apex `t` satisfies `0 ≤ (t-v0)·n`. -/
theorem signedAreaTri_eq (v0 v1 v2 t : V3 ℝ) :
    Ref.signedAreaTri v0 v1 v2 t =
      (if 0 ≤ V3.dot (t - v0) (V3.cross (v1 - v0) (v2 - v0)) then 1 else -1) *
        ((1 / 2) * Real.sqrt (V3.norm2 (V3.cross (v1 - v0) (v2 - v0)))) := by
  rw [signedAreaTri_def, norm2_smul, dot_smul_right,
    Real.sqrt_mul (by positivity), Real.sqrt_sq (by norm_num)]
  have : (0 ≤ 1 / 2 * V3.dot (t - v0) (V3.cross (v1 - v0) (v2 - v0))) ↔
      0 ≤ V3.dot (t - v0) (V3.cross (v1 - v0) (v2 - v0)) := by
    constructor <;> intro h <;> linarith
  simp only [this]
  ring

/-- T19.3: the absolute value of `signed_area_tri` is the area of the triangle. -/
theorem signedAreaTri_abs (v0 v1 v2 t : V3 ℝ) :
    |Ref.signedAreaTri v0 v1 v2 t| = (1 / 2) * Real.sqrt (V3.norm2 (V3.cross (v1 - v0) (v2 - v0))) := by
  rw [signedAreaTri_eq, abs_mul,
    abs_of_nonneg (a := 1 / 2 * Real.sqrt _) (by positivity)]
  split_ifs <;> simp

/-- T19.3: `signed_area_tri` is non-negative when `0 ≤ (t-v0)·n` and equals the area. -/
theorem signedAreaTri_pos (v0 v1 v2 t : V3 ℝ)
    (h : 0 ≤ V3.dot (t - v0) (V3.cross (v1 - v0) (v2 - v0))) :
    Ref.signedAreaTri v0 v1 v2 t = (1 / 2) * Real.sqrt (V3.norm2 (V3.cross (v1 - v0) (v2 - v0))) ∧
    0 ≤ Ref.signedAreaTri v0 v1 v2 t := by
  rw [signedAreaTri_eq, if_pos h, one_mul]
  exact ⟨rfl, by positivity⟩

/-- T19.3: `signed_area_tri` is minus the area when `(t-v0)·n < 0`. -/
theorem signedAreaTri_neg (v0 v1 v2 t : V3 ℝ)
    (h : V3.dot (t - v0) (V3.cross (v1 - v0) (v2 - v0)) < 0) :
    Ref.signedAreaTri v0 v1 v2 t = -((1 / 2) * Real.sqrt (V3.norm2 (V3.cross (v1 - v0) (v2 - v0)))) ∧
    Ref.signedAreaTri v0 v1 v2 t ≤ 0 := by
  rw [signedAreaTri_eq, if_neg (not_le.mpr h), neg_one_mul]
  refine ⟨rfl, ?_⟩
  have : 0 ≤ 1 / 2 * Real.sqrt (V3.norm2 (V3.cross (v1 - v0) (v2 - v0))) := by positivity
  linarith

/-- T19.3: for a non-degenerate triangle the sign of `signed_area_tri` is positive iff `0 ≤ (t-v0)·n`. -/
theorem signedAreaTri_pos_iff (v0 v1 v2 t : V3 ℝ)
    (hnd : V3.norm2 (V3.cross (v1 - v0) (v2 - v0)) ≠ 0) :
    0 < Ref.signedAreaTri v0 v1 v2 t ↔ 0 ≤ V3.dot (t - v0) (V3.cross (v1 - v0) (v2 - v0)) := by
  have hpos : 0 < 1 / 2 * Real.sqrt (V3.norm2 (V3.cross (v1 - v0) (v2 - v0))) := by
    have := Real.sqrt_pos.mpr (lt_of_le_of_ne (norm2_nonneg _) (Ne.symm hnd))
    positivity
  constructor
  · intro h
    by_contra hc
    have := (signedAreaTri_neg v0 v1 v2 t (not_le.mp hc)).2
    linarith
  · intro h
    rw [(signedAreaTri_pos v0 v1 v2 t h).1]
    exact hpos

/-- T19.3: exchanging `v1` and `v2` negates `signed_area_tri` when the apex is off the triangle's plane. -/
theorem signedAreaTri_swap (v0 v1 v2 t : V3 ℝ)
    (h : V3.dot (t - v0) (V3.cross (v1 - v0) (v2 - v0)) ≠ 0) :
    Ref.signedAreaTri v0 v2 v1 t = -Ref.signedAreaTri v0 v1 v2 t := by
  have hd : V3.dot (t - v0) (V3.cross (v2 - v0) (v1 - v0))
      = -V3.dot (t - v0) (V3.cross (v1 - v0) (v2 - v0)) := by
    simp only [dot_def, cross_x, cross_y, cross_z, sub_x, sub_y, sub_z]; ring
  have hn : V3.norm2 (V3.cross (v2 - v0) (v1 - v0)) = V3.norm2 (V3.cross (v1 - v0) (v2 - v0)) := by
    simp only [norm2_def, cross_x, cross_y, cross_z, sub_x, sub_y, sub_z]; ring
  rw [signedAreaTri_eq, signedAreaTri_eq, hd, hn]
  rcases lt_or_gt_of_ne h with hlt | hgt
  · rw [if_pos (by linarith), if_neg (by linarith)]; ring
  · rw [if_neg (by linarith), if_pos (by linarith)]; ring

/-- T19.3: two apexes strictly on the same side of the triangle's plane give the same `signed_area_tri`. -/
theorem signedAreaTri_indep_t (v0 v1 v2 t t' : V3 ℝ)
    (h : 0 < V3.dot (t - v0) (V3.cross (v1 - v0) (v2 - v0)) *
          V3.dot (t' - v0) (V3.cross (v1 - v0) (v2 - v0))) :
    Ref.signedAreaTri v0 v1 v2 t = Ref.signedAreaTri v0 v1 v2 t' := by
  rw [signedAreaTri_eq, signedAreaTri_eq]
  rcases (mul_pos_iff.mp h) with ⟨h1, h2⟩ | ⟨h1, h2⟩
  · rw [if_pos h1.le, if_pos h2.le]
  · rw [if_neg (not_le.mpr h1), if_neg (not_le.mpr h2)]

/-! ### T19.4 spheres -/

theorem sphere2_center (a b : V3 ℝ) : (Ref.sphere2 a b).center = V3.smul (1 / 2) (a + b) := by
  show V3.smul (((1 : ℕ) : ℝ) / ((2 : ℕ) : ℝ)) (a + b) = _
  rw [Nat.cast_one, Nat.cast_ofNat]

theorem sphere2_radius (a b : V3 ℝ) :
    (Ref.sphere2 a b).radius = 1 / 2 * Real.sqrt (V3.norm2 (a - b)) := by
  show (((1 : ℕ) : ℝ) / ((2 : ℕ) : ℝ)) * Real.sqrt (V3.norm2 (a - b)) = _
  rw [Nat.cast_one, Nat.cast_ofNat]

/-- T19.4: `Sphere::from_two_points` is centred at the midpoint, has non-negative radius and passes through both points. -/
theorem sphere2_on (a b : V3 ℝ) :
    (Ref.sphere2 a b).center = V3.smul (1 / 2) (a + b) ∧
    0 ≤ (Ref.sphere2 a b).radius ∧
    V3.distance2 a (Ref.sphere2 a b).center = (Ref.sphere2 a b).radius ^ 2 ∧
    V3.distance2 b (Ref.sphere2 a b).center = (Ref.sphere2 a b).radius ^ 2 := by
  refine ⟨sphere2_center a b, ?_, ?_, ?_⟩
  · rw [sphere2_radius]; positivity
  · rw [sphere2_radius, sphere2_center, mul_pow, Real.sq_sqrt (norm2_nonneg _)]
    simp only [distance2_def, norm2_def, smul_x, smul_y, smul_z, add_x, add_y, add_z, sub_x, sub_y, sub_z]
    ring
  · rw [sphere2_radius, sphere2_center, mul_pow, Real.sq_sqrt (norm2_nonneg _)]
    simp only [distance2_def, norm2_def, smul_x, smul_y, smul_z, add_x, add_y, add_z, sub_x, sub_y, sub_z]
    ring

theorem sphere3_center (a b c : V3 ℝ) : (Ref.sphere3 a b c).center =
    V3.smul (1 / V3.norm2 (V3.cross (a - c) (b - c))) (V3.smul (1 / 2)
      (V3.cross (V3.smul (V3.norm2 (a - c)) (b - c) - V3.smul (V3.norm2 (b - c)) (a - c))
        (V3.cross (a - c) (b - c)))) + c := by
  show V3.smul (((1 : ℕ) : ℝ) / V3.norm2 (V3.cross (a - c) (b - c))) (V3.smul (((1 : ℕ) : ℝ) / ((2 : ℕ) : ℝ))
      (V3.cross (V3.smul (V3.norm2 (a - c)) (b - c) - V3.smul (V3.norm2 (b - c)) (a - c))
        (V3.cross (a - c) (b - c)))) + c = _
  rw [Nat.cast_one, Nat.cast_ofNat]

theorem sphere3_radius (a b c : V3 ℝ) : (Ref.sphere3 a b c).radius =
    1 / 2 * Real.sqrt (V3.norm2 (a - c) * V3.norm2 (b - c) * (1 / V3.norm2 (V3.cross (a - c) (b - c)))
      * V3.norm2 (a - c - (b - c))) := by
  show ((1 : ℕ) : ℝ) / ((2 : ℕ) : ℝ) * Real.sqrt (V3.norm2 (a - c) * V3.norm2 (b - c)
      * (((1 : ℕ) : ℝ) / V3.norm2 (V3.cross (a - c) (b - c))) * V3.norm2 (a - c - (b - c))) = _
  rw [Nat.cast_one, Nat.cast_ofNat]

/-- circumcentre (relative to the third vertex) of the triangle `0 u v` and the circumradius identity -/
theorem circum3_aux (u v w : V3 ℝ) (D : ℝ) (hD : D ≠ 0) (hDe : V3.norm2 (V3.cross u v) = D)
    (hw : w = V3.smul (1 / D) (V3.smul (1 / 2)
      (V3.cross (V3.smul (V3.norm2 u) v - V3.smul (V3.norm2 v) u) (V3.cross u v)))) :
    V3.norm2 (u - w) = 1 / 4 * (V3.norm2 u * V3.norm2 v * (1 / D) * V3.norm2 (u - v)) ∧
    V3.norm2 (v - w) = 1 / 4 * (V3.norm2 u * V3.norm2 v * (1 / D) * V3.norm2 (u - v)) ∧
    V3.norm2 (V3.smul (-1) w) = 1 / 4 * (V3.norm2 u * V3.norm2 v * (1 / D) * V3.norm2 (u - v)) ∧
    V3.dot w (V3.cross u v) = 0 := by
  subst hw
  refine ⟨?_, ?_, ?_, ?_⟩ <;>
  · simp only [norm2_def, dot_def, cross_x, cross_y, cross_z, smul_x, smul_y, smul_z, sub_x, sub_y, sub_z]
    field_simp
    rw [← hDe]
    simp only [norm2_def, dot_def, cross_x, cross_y, cross_z, smul_x, smul_y, smul_z, sub_x, sub_y, sub_z]
    ring

theorem distance2_add_right (a W c : V3 ℝ) : V3.distance2 a (W + c) = V3.norm2 (a - c - W) := by
  simp only [distance2_def, norm2_def, add_x, add_y, add_z, sub_x, sub_y, sub_z]; ring

theorem distance2_self_add (W c : V3 ℝ) : V3.distance2 c (W + c) = V3.norm2 (V3.smul (-1) W) := by
  simp only [distance2_def, norm2_def, add_x, add_y, add_z, smul_x, smul_y, smul_z]; ring

theorem add_sub_cancel_dot (W c X : V3 ℝ) : V3.dot (W + c - c) X = V3.dot W X := by
  simp only [dot_def, add_x, add_y, add_z, sub_x, sub_y, sub_z]; ring

/-- T19.4: for a non-degenerate triangle `Sphere::from_three_points` passes through the three points, has
non-negative radius, and its centre lies in the plane of the triangle. -/
theorem sphere3_on (a b c : V3 ℝ) (h : V3.norm2 (V3.cross (a - c) (b - c)) ≠ 0) :
    0 ≤ (Ref.sphere3 a b c).radius ∧
    V3.distance2 a (Ref.sphere3 a b c).center = (Ref.sphere3 a b c).radius ^ 2 ∧
    V3.distance2 b (Ref.sphere3 a b c).center = (Ref.sphere3 a b c).radius ^ 2 ∧
    V3.distance2 c (Ref.sphere3 a b c).center = (Ref.sphere3 a b c).radius ^ 2 ∧
    V3.dot ((Ref.sphere3 a b c).center - c) (V3.cross (a - c) (b - c)) = 0 := by
  obtain ⟨h1, h2, h3, h4⟩ := circum3_aux (a - c) (b - c) _ _ h rfl rfl
  have hr : 0 ≤ V3.norm2 (a - c) * V3.norm2 (b - c) * (1 / V3.norm2 (V3.cross (a - c) (b - c)))
      * V3.norm2 (a - c - (b - c)) := by
    have := norm2_nonneg (a - c)
    have := norm2_nonneg (b - c)
    have := norm2_nonneg (V3.cross (a - c) (b - c))
    have := norm2_nonneg (a - c - (b - c))
    positivity
  rw [sphere3_radius, sphere3_center, mul_pow, Real.sq_sqrt hr, distance2_add_right,
    distance2_add_right, distance2_self_add, add_sub_cancel_dot]
  refine ⟨by positivity, ?_, ?_, ?_, h4⟩
  · rw [h1]; ring
  · rw [h2]; ring
  · rw [h3]; ring

theorem det4cols_def (a b c d : V4 ℝ) : det4cols a b c d =
    d.w * det3cols ⟨a.x, a.y, a.z⟩ ⟨b.x, b.y, b.z⟩ ⟨c.x, c.y, c.z⟩
    - c.w * det3cols ⟨a.x, a.y, a.z⟩ ⟨b.x, b.y, b.z⟩ ⟨d.x, d.y, d.z⟩
    + b.w * det3cols ⟨a.x, a.y, a.z⟩ ⟨c.x, c.y, c.z⟩ ⟨d.x, d.y, d.z⟩
    - a.w * det3cols ⟨b.x, b.y, b.z⟩ ⟨c.x, c.y, c.z⟩ ⟨d.x, d.y, d.z⟩ := rfl

/-- the column vectors and minors used by `Sphere::from_four_points` -/
def s4x (a b c d : V3 ℝ) : V4 ℝ := ⟨a.x, b.x, c.x, d.x⟩
def s4y (a b c d : V3 ℝ) : V4 ℝ := ⟨a.y, b.y, c.y, d.y⟩
def s4z (a b c d : V3 ℝ) : V4 ℝ := ⟨a.z, b.z, c.z, d.z⟩
def s4n (a b c d : V3 ℝ) : V4 ℝ :=
  ⟨a.x * a.x + a.y * a.y + a.z * a.z, b.x * b.x + b.y * b.y + b.z * b.z,
   c.x * c.x + c.y * c.y + c.z * c.z, d.x * d.x + d.y * d.y + d.z * d.z⟩
def s4one : V4 ℝ := ⟨1, 1, 1, 1⟩
/-- the 4×4 determinant `a` of `Sphere::from_four_points` (six times the signed volume, up to sign) -/
def s4aa (a b c d : V3 ℝ) : ℝ := det4cols (s4x a b c d) (s4y a b c d) (s4z a b c d) s4one
def s4dx (a b c d : V3 ℝ) : ℝ := det4cols (s4n a b c d) (s4y a b c d) (s4z a b c d) s4one
def s4dy (a b c d : V3 ℝ) : ℝ := -det4cols (s4n a b c d) (s4x a b c d) (s4z a b c d) s4one
def s4dz (a b c d : V3 ℝ) : ℝ := det4cols (s4n a b c d) (s4x a b c d) (s4y a b c d) s4one
def s4cc (a b c d : V3 ℝ) : ℝ := det4cols (s4n a b c d) (s4x a b c d) (s4y a b c d) (s4z a b c d)

theorem sphere4_center (a b c d : V3 ℝ) : (Ref.sphere4 a b c d).center =
    ⟨s4dx a b c d * (1 / 2 / s4aa a b c d), s4dy a b c d * (1 / 2 / s4aa a b c d),
     s4dz a b c d * (1 / 2 / s4aa a b c d)⟩ := by
  simp only [Ref.sphere4, s4dx, s4dy, s4dz, s4aa, s4x, s4y, s4z, s4n, s4one, N, Nat.cast_one,
    Nat.cast_ofNat]

theorem sphere4_radius (a b c d : V3 ℝ) : (Ref.sphere4 a b c d).radius =
    Real.sqrt (s4dx a b c d * s4dx a b c d + s4dy a b c d * s4dy a b c d + s4dz a b c d * s4dz a b c d
      - 4 * s4aa a b c d * s4cc a b c d) * |1 / 2 / s4aa a b c d| := by
  simp only [Ref.sphere4, s4dx, s4dy, s4dz, s4aa, s4cc, s4x, s4y, s4z, s4n, s4one, N, Nat.cast_one,
    Nat.cast_ofNat, scalar_sqrt, scalar_abs]

/-- each of the four points satisfies the sphere equation `aa‖p‖² - p·(dx,dy,dz) + cc = 0` -/
theorem sphere4_key (a b c d : V3 ℝ) :
    (s4aa a b c d * V3.norm2 a - (a.x * s4dx a b c d + a.y * s4dy a b c d + a.z * s4dz a b c d) + s4cc a b c d = 0) ∧
    (s4aa a b c d * V3.norm2 b - (b.x * s4dx a b c d + b.y * s4dy a b c d + b.z * s4dz a b c d) + s4cc a b c d = 0) ∧
    (s4aa a b c d * V3.norm2 c - (c.x * s4dx a b c d + c.y * s4dy a b c d + c.z * s4dz a b c d) + s4cc a b c d = 0) ∧
    (s4aa a b c d * V3.norm2 d - (d.x * s4dx a b c d + d.y * s4dy a b c d + d.z * s4dz a b c d) + s4cc a b c d = 0) := by
  refine ⟨?_, ?_, ?_, ?_⟩ <;>
  · simp only [s4dx, s4dy, s4dz, s4aa, s4cc, s4x, s4y, s4z, s4n, s4one, det4cols_def, det3cols_def, norm2_def]
    ring

theorem sphere_eq_aux (p : V3 ℝ) (A Dx Dy Dz C : ℝ) (hA : A ≠ 0)
    (hk : A * V3.norm2 p - (p.x * Dx + p.y * Dy + p.z * Dz) + C = 0) :
    V3.distance2 p ⟨Dx * (1 / 2 / A), Dy * (1 / 2 / A), Dz * (1 / 2 / A)⟩
      = (Dx * Dx + Dy * Dy + Dz * Dz - 4 * A * C) * (1 / 2 / A) ^ 2 := by
  simp only [distance2_def]
  rw [norm2_def] at hk
  field_simp
  linear_combination (4 * A) * hk

/-- T19.4: for non-coplanar points (`aa ≠ 0`) `Sphere::from_four_points` has non-negative radius and passes
through all four points. -/
theorem sphere4_on (a b c d : V3 ℝ) (h : s4aa a b c d ≠ 0) :
    0 ≤ (Ref.sphere4 a b c d).radius ∧
    V3.distance2 a (Ref.sphere4 a b c d).center = (Ref.sphere4 a b c d).radius ^ 2 ∧
    V3.distance2 b (Ref.sphere4 a b c d).center = (Ref.sphere4 a b c d).radius ^ 2 ∧
    V3.distance2 c (Ref.sphere4 a b c d).center = (Ref.sphere4 a b c d).radius ^ 2 ∧
    V3.distance2 d (Ref.sphere4 a b c d).center = (Ref.sphere4 a b c d).radius ^ 2 := by
  obtain ⟨ka, kb, kc, kd⟩ := sphere4_key a b c d
  have ea := sphere_eq_aux a _ _ _ _ _ h ka
  have eb := sphere_eq_aux b _ _ _ _ _ h kb
  have ec := sphere_eq_aux c _ _ _ _ _ h kc
  have ed := sphere_eq_aux d _ _ _ _ _ h kd
  have hk2 : 0 < (1 / 2 / s4aa a b c d) ^ 2 := by positivity
  have hrad : 0 ≤ s4dx a b c d * s4dx a b c d + s4dy a b c d * s4dy a b c d + s4dz a b c d * s4dz a b c d
      - 4 * s4aa a b c d * s4cc a b c d := by
    have h0 := distance2_nonneg a ⟨s4dx a b c d * (1 / 2 / s4aa a b c d),
      s4dy a b c d * (1 / 2 / s4aa a b c d), s4dz a b c d * (1 / 2 / s4aa a b c d)⟩
    rw [ea] at h0
    exact nonneg_of_mul_nonneg_left h0 hk2
  rw [sphere4_radius, sphere4_center, mul_pow, Real.sq_sqrt hrad, sq_abs]
  exact ⟨by positivity, ea, eb, ec, ed⟩

/-- T19.4: the determinant guard `aa` of `Sphere::from_four_points` is the `det4cols x y z one` of the definition. -/
theorem s4aa_eq (a b c d : V3 ℝ) : s4aa a b c d =
    det4cols (⟨a.x, b.x, c.x, d.x⟩ : V4 ℝ) ⟨a.y, b.y, c.y, d.y⟩ ⟨a.z, b.z, c.z, d.z⟩ ⟨1, 1, 1, 1⟩ := rfl

/-- T19.4: `aa` is the triple product of the edge vectors from `d` (so `aa ≠ 0` iff the points are not coplanar). -/
theorem s4aa_eq_det3 (a b c d : V3 ℝ) : s4aa a b c d = det3cols (a - d) (b - d) (c - d) := by
  simp only [s4aa, s4x, s4y, s4z, s4one, det4cols_def, det3cols_def, sub_x, sub_y, sub_z]
  ring

theorem contains_iff (s : Sphere ℝ) (x : V3 ℝ) : Ref.contains s x = true ↔
    0 < s.radius ∧ V3.distance2 x s.center ≤ s.radius * s.radius * (1 + 1 / 10 ^ 10) := by
  simp only [Ref.contains, N, Nat.cast_zero, Nat.cast_one, scalar_lt, scalar_le, scalar_lit,
    Bool.and_eq_true, decide_eq_true_eq]

/-- T19.4: `Sphere::contains` is monotone in the radius. -/
theorem contains_mono (c x : V3 ℝ) (r r' : ℝ) (h : Ref.contains ⟨c, r⟩ x = true) (hr : r ≤ r') :
    Ref.contains ⟨c, r'⟩ x = true := by
  rw [contains_iff] at h ⊢
  obtain ⟨h0, h1⟩ := h
  refine ⟨lt_of_lt_of_le h0 hr, le_trans h1 ?_⟩
  have : r * r ≤ r' * r' := mul_le_mul hr hr h0.le (le_trans h0.le hr)
  show r * r * (1 + 1 / 10 ^ 10) ≤ r' * r' * (1 + 1 / 10 ^ 10)
  have h2 : (0 : ℝ) ≤ 1 + 1 / 10 ^ 10 := by positivity
  exact mul_le_mul_of_nonneg_right this h2

/-- `Sphere::extend` leaves a sphere that already contains the point unchanged. -/
theorem extend_of_contains (s : Sphere ℝ) (x : V3 ℝ) (h : Ref.contains s x = true) :
    Ref.extend s x = s := by
  simp only [Ref.extend, h, if_true]

theorem extend_center (s : Sphere ℝ) (x : V3 ℝ) (h : Ref.contains s x = false) :
    (Ref.extend s x).center = V3.smul (1 / 2) (s.center - V3.smul s.radius
      (V3.smul (1 / Real.sqrt (V3.norm2 (x - s.center))) (x - s.center)) + x) := by
  simp only [Ref.extend, h, V3.normalize, V3.length, N, Nat.cast_one, Nat.cast_ofNat, scalar_sqrt]
  rfl

theorem extend_radius (s : Sphere ℝ) (x : V3 ℝ) (h : Ref.contains s x = false) :
    (Ref.extend s x).radius = Real.sqrt (V3.norm2 ((Ref.extend s x).center - x)) := by
  simp only [Ref.extend, h, V3.distance, V3.length, scalar_sqrt]
  rfl

theorem distance_def (a b : V3 ℝ) : V3.distance a b = Real.sqrt (V3.norm2 (a - b)) := rfl

theorem normalize_def (a : V3 ℝ) : V3.normalize a = V3.smul (1 / Real.sqrt (V3.norm2 a)) a := by
  simp only [V3.normalize, V3.length, N, Nat.cast_one, scalar_sqrt]

theorem norm2_sub_comm (a b : V3 ℝ) : V3.norm2 (a - b) = V3.norm2 (b - a) := by
  simp only [norm2_def, sub_x, sub_y, sub_z]; ring

/-- Cauchy-Schwarz (Lagrange identity) -/
theorem dot_sq_le (u w : V3 ℝ) : V3.dot u w ^ 2 ≤ V3.norm2 u * V3.norm2 w := by
  have h := norm2_nonneg (V3.cross u w)
  have e : V3.norm2 u * V3.norm2 w - V3.dot u w ^ 2 = V3.norm2 (V3.cross u w) := by
    simp only [norm2_def, dot_def, cross_x, cross_y, cross_z]; ring
  linarith

/-- a point not contained in a sphere of positive radius is farther than `radius` from the centre -/
theorem lt_distance_of_not_contains (s : Sphere ℝ) (x : V3 ℝ) (hr : 0 < s.radius)
    (h : Ref.contains s x = false) : s.radius < V3.distance x s.center := by
  have h' : ¬ (Ref.contains s x = true) := by rw [h]; simp
  rw [contains_iff] at h'
  have h2 : s.radius * s.radius * (1 + 1 / 10 ^ 10) < V3.distance2 x s.center := by
    by_contra hc
    exact h' ⟨hr, not_lt.mp hc⟩
  have h3 : s.radius ^ 2 < V3.norm2 (x - s.center) := by
    have : s.radius * s.radius ≤ s.radius * s.radius * (1 + 1 / 10 ^ 10) := by
      have : 0 ≤ s.radius * s.radius := by positivity
      nlinarith
    calc s.radius ^ 2 = s.radius * s.radius := by ring
      _ ≤ _ := this
      _ < _ := h2
  rw [distance_def]
  exact Real.lt_sqrt_of_sq_lt h3

/-- the algebra behind `Sphere::extend`, with `d` the distance from the old centre to `x` -/
theorem extend_aux (c x : V3 ℝ) (r d : ℝ) (hd : d ≠ 0) (hd2 : d ^ 2 = V3.norm2 (x - c)) :
    V3.smul (1 / 2) (c - V3.smul r (V3.smul (1 / d) (x - c)) + x) - x
      = V3.smul (-(d + r) / (2 * d)) (x - c) ∧
    (∀ y : V3 ℝ, y - V3.smul (1 / 2) (c - V3.smul r (V3.smul (1 / d) (x - c)) + x)
      = (y - c) - V3.smul ((d - r) / (2 * d)) (x - c)) ∧
    x - (c - V3.smul r (V3.smul (1 / d) (x - c))) = V3.smul ((d + r) / d) (x - c) := by
  refine ⟨?_, ?_, ?_⟩
  · apply V3.ext' <;>
    · simp only [smul_x, smul_y, smul_z, add_x, add_y, add_z, sub_x, sub_y, sub_z]
      field_simp
      ring
  · intro y
    apply V3.ext' <;>
    · simp only [smul_x, smul_y, smul_z, add_x, add_y, add_z, sub_x, sub_y, sub_z]
      field_simp
      ring
  · apply V3.ext' <;>
    · simp only [smul_x, smul_y, smul_z, add_x, add_y, add_z, sub_x, sub_y, sub_z]
      field_simp
      ring

theorem norm2_sub_smul (u w : V3 ℝ) (k : ℝ) :
    V3.norm2 (u - V3.smul k w) = V3.norm2 u - 2 * k * V3.dot u w + k ^ 2 * V3.norm2 w := by
  simp only [norm2_def, dot_def, smul_x, smul_y, smul_z, sub_x, sub_y, sub_z]; ring

/-- T19.4: after `Sphere::extend` (old radius positive, `x` not contained) the new radius is `(d + r)/2`
with `d` the distance of `x` from the old centre. -/
theorem extend_radius_eq (s : Sphere ℝ) (x : V3 ℝ) (hr : 0 < s.radius)
    (h : Ref.contains s x = false) :
    (Ref.extend s x).radius = (V3.distance x s.center + s.radius) / 2 := by
  have hlt := lt_distance_of_not_contains s x hr h
  rw [distance_def] at hlt ⊢
  rw [extend_radius s x h, extend_center s x h]
  generalize hdef : Real.sqrt (V3.norm2 (x - s.center)) = d at *
  have hdpos : 0 < d := lt_trans hr hlt
  have hd2 : d ^ 2 = V3.norm2 (x - s.center) := by
    rw [← hdef]; exact Real.sq_sqrt (norm2_nonneg _)
  obtain ⟨e1, -, -⟩ := extend_aux s.center x s.radius d hdpos.ne' hd2
  rw [e1, norm2_smul, ← hd2]
  have : (-(d + s.radius) / (2 * d)) ^ 2 * d ^ 2 = ((d + s.radius) / 2) ^ 2 := by
    field_simp
  rw [this, Real.sqrt_sq (by linarith)]

/-- T19.4: after `Sphere::extend` (old radius positive, `x` not contained) the point `x` lies exactly on
the new sphere and the old ball is contained in the new one. -/
theorem extend_contains_point (s : Sphere ℝ) (x : V3 ℝ) (hr : 0 < s.radius)
    (h : Ref.contains s x = false) :
    V3.distance x (Ref.extend s x).center = (Ref.extend s x).radius ∧
    ∀ y : V3 ℝ, V3.distance y s.center ≤ s.radius →
      V3.distance y (Ref.extend s x).center ≤ (Ref.extend s x).radius := by
  refine ⟨?_, ?_⟩
  · rw [extend_radius s x h, distance_def, norm2_sub_comm]
  · intro y hy
    have hlt := lt_distance_of_not_contains s x hr h
    rw [extend_radius_eq s x hr h]
    rw [distance_def] at hlt hy ⊢
    rw [distance_def, extend_center s x h]
    generalize hdef : Real.sqrt (V3.norm2 (x - s.center)) = d at *
    have hdpos : 0 < d := lt_trans hr hlt
    have hd2 : d ^ 2 = V3.norm2 (x - s.center) := by
      rw [← hdef]; exact Real.sq_sqrt (norm2_nonneg _)
    obtain ⟨-, e2, -⟩ := extend_aux s.center x s.radius d hdpos.ne' hd2
    rw [e2 y, norm2_sub_smul, ← hd2]
    have hy2 : V3.norm2 (y - s.center) ≤ s.radius ^ 2 := (Real.sqrt_le_left hr.le).mp hy
    have hcs := dot_sq_le (y - s.center) (x - s.center)
    rw [← hd2] at hcs
    clear e2 hdef
    generalize V3.dot (y - s.center) (x - s.center) = p at *
    generalize V3.norm2 (y - s.center) = q at *
    generalize s.radius = r at *
    have hq : 0 ≤ q := by
      by_contra hc
      have : q * d ^ 2 < 0 := mul_neg_of_neg_of_pos (not_le.mp hc) (by positivity)
      nlinarith [sq_nonneg p]
    have hp : -(r * d) ≤ p := by
      have h1 : p ^ 2 ≤ (r * d) ^ 2 := by
        calc p ^ 2 ≤ q * d ^ 2 := hcs
          _ ≤ r ^ 2 * d ^ 2 := mul_le_mul_of_nonneg_right hy2 (by positivity)
          _ = (r * d) ^ 2 := by ring
      have h2 : 0 ≤ r * d := by positivity
      have := abs_le_of_sq_le_sq h1 h2
      exact (abs_le.mp this).1
    have hk : 0 ≤ (d - r) / (2 * d) := by
      apply div_nonneg <;> linarith
    apply Real.sqrt_le_iff.mpr
    refine ⟨by linarith, ?_⟩
    have e : ((d + r) / 2) ^ 2 = r ^ 2 + 2 * ((d - r) / (2 * d)) * (r * d) + ((d - r) / (2 * d)) ^ 2 * d ^ 2 := by
      field_simp
      ring
    rw [e]
    nlinarith [mul_le_mul_of_nonneg_left hp hk]

/-- parallelogram inequality `‖p-q‖² ≤ 2‖p-m‖² + 2‖q-m‖²` -/
theorem norm2_sub_le (p q m : V3 ℝ) :
    V3.norm2 (p - q) ≤ 2 * V3.norm2 (p - m) + 2 * V3.norm2 (q - m) := by
  simp only [norm2_def, sub_x, sub_y, sub_z]
  nlinarith [sq_nonneg (p.x + q.x - 2 * m.x), sq_nonneg (p.y + q.y - 2 * m.y),
    sq_nonneg (p.z + q.z - 2 * m.z)]

/-- T19.4: the radius `(d + r)/2` of `Sphere::extend` is minimal: every ball containing `x` and the point
`opposite` of the old sphere has radius at least `(d + r)/2`. -/
theorem extend_minimal (s : Sphere ℝ) (x : V3 ℝ) (hr : 0 < s.radius)
    (h : Ref.contains s x = false) :
    (Ref.extend s x).radius = (V3.distance x s.center + s.radius) / 2 ∧
    ∀ (c' : V3 ℝ) (R : ℝ), V3.distance x c' ≤ R →
      V3.distance (s.center - V3.smul s.radius (V3.normalize (x - s.center))) c' ≤ R →
      (Ref.extend s x).radius ≤ R := by
  refine ⟨extend_radius_eq s x hr h, ?_⟩
  intro c' R hx ho
  have hlt := lt_distance_of_not_contains s x hr h
  rw [extend_radius_eq s x hr h]
  rw [normalize_def] at ho
  rw [distance_def] at hlt hx ho ⊢
  generalize hdef : Real.sqrt (V3.norm2 (x - s.center)) = d at *
  have hdpos : 0 < d := lt_trans hr hlt
  have hd2 : d ^ 2 = V3.norm2 (x - s.center) := by
    rw [← hdef]; exact Real.sq_sqrt (norm2_nonneg _)
  obtain ⟨-, -, e3⟩ := extend_aux s.center x s.radius d hdpos.ne' hd2
  have hR : 0 ≤ R := le_trans (Real.sqrt_nonneg _) hx
  have hx2 := (Real.sqrt_le_left hR).mp hx
  have ho2 := (Real.sqrt_le_left hR).mp ho
  have hpar := norm2_sub_le x (s.center - V3.smul s.radius (V3.smul (1 / d) (x - s.center))) c'
  rw [e3, norm2_smul, ← hd2] at hpar
  have e : ((d + s.radius) / d) ^ 2 * d ^ 2 = (d + s.radius) ^ 2 := by
    field_simp
  rw [e] at hpar
  have h1 : (d + s.radius) ^ 2 ≤ (2 * R) ^ 2 := by nlinarith
  have := abs_le_of_sq_le_sq h1 (by linarith)
  have := (abs_le.mp this).2
  linarith

/-! ### non-vacuity: concrete instances of the hypotheses and results -/

/-- the planes `x = 1`, `y = 2`, `z = 3` satisfy the determinant guard -/
example : det3cols (⟨1, 0, 0⟩ : V3 ℝ) ⟨0, 1, 0⟩ ⟨0, 0, 1⟩ ≠ 0 := by
  simp only [det3cols_def]; norm_num

/-- the planes `x = 1`, `y = 2`, `z = 3` meet in `(1,2,3)` -/
example : Ref.intersectPlanes (⟨⟨1, 0, 0⟩, ⟨1, 0, 0⟩⟩ : Plane ℝ) ⟨⟨0, 1, 0⟩, ⟨0, 2, 0⟩⟩ ⟨⟨0, 0, 1⟩, ⟨0, 0, 3⟩⟩
    = ⟨1, 2, 3⟩ := by
  apply V3.ext' <;>
  · simp only [intersectPlanes_x, intersectPlanes_y, intersectPlanes_z, det3cols_def, dot_def,
      cross_x, cross_y, cross_z]
    norm_num

/-- projecting `(1,2,3)` onto the plane `z = 0` (normal of length 2) gives `(1,2,0)` -/
example : Ref.projectOnto (⟨⟨0, 0, 2⟩, ⟨5, 7, 0⟩⟩ : Plane ℝ) ⟨1, 2, 3⟩ = ⟨1, 2, 0⟩ := by
  apply V3.ext' <;>
  · simp only [projectOnto_x, projectOnto_y, projectOnto_z, dot_def, sub_x, sub_y, sub_z]
    norm_num

/-- projecting `(1,2,3)` onto the intersection of `x = 0` and `y = 0` gives `(0,0,3)` -/
example : Ref.projectOntoIntersection (⟨⟨1, 0, 0⟩, ⟨0, 0, 0⟩⟩ : Plane ℝ) ⟨⟨0, 1, 0⟩, ⟨0, 0, 0⟩⟩ ⟨1, 2, 3⟩
    = ⟨0, 0, 3⟩ := by
  apply V3.ext' <;>
  · simp only [Ref.projectOntoIntersection, intersectPlanes_x, intersectPlanes_y, intersectPlanes_z,
      det3cols_def, dot_def, cross_x, cross_y, cross_z]
    norm_num

/-- the unit corner tetrahedron satisfies the guard of `sphere4_on`, and its circumcentre is `(½,½,½)` -/
example : s4aa ⟨0, 0, 0⟩ ⟨1, 0, 0⟩ ⟨0, 1, 0⟩ ⟨0, 0, 1⟩ ≠ 0 := by
  simp only [s4aa_eq_det3, det3cols_def, sub_x, sub_y, sub_z]; norm_num

example : (Ref.sphere4 (⟨0, 0, 0⟩ : V3 ℝ) ⟨1, 0, 0⟩ ⟨0, 1, 0⟩ ⟨0, 0, 1⟩).center = ⟨1 / 2, 1 / 2, 1 / 2⟩ := by
  rw [sphere4_center]
  simp only [s4dx, s4dy, s4dz, s4aa, s4x, s4y, s4z, s4n, s4one, det4cols_def, det3cols_def]
  norm_num

/-- the right triangle `(1,0,0) (0,1,0) (0,0,0)` satisfies the guard of `sphere3_on` -/
example : V3.norm2 (V3.cross ((⟨1, 0, 0⟩ : V3 ℝ) - ⟨0, 0, 0⟩) (⟨0, 1, 0⟩ - ⟨0, 0, 0⟩)) ≠ 0 := by
  simp only [norm2_def, cross_x, cross_y, cross_z, sub_x, sub_y, sub_z]; norm_num

/-- the unit sphere does not contain `(3,0,0)`: the hypotheses of the `extend_*` theorems are satisfiable -/
example : Ref.contains (⟨⟨0, 0, 0⟩, 1⟩ : Sphere ℝ) ⟨3, 0, 0⟩ = false := by
  rw [Bool.eq_false_iff, Ne, contains_iff, distance2_def]
  norm_num

/-- the unit sphere contains `(1,0,0)` -/
example : Ref.contains (⟨⟨0, 0, 0⟩, 1⟩ : Sphere ℝ) ⟨1, 0, 0⟩ = true := by
  rw [contains_iff, distance2_def]
  norm_num

#print axioms intersectPlanes_on
#print axioms intersectPlanes_unique
#print axioms projectOnto_on_plane
#print axioms projectOnto_parallel
#print axioms projectOnto_idem
#print axioms projectOnto_fixes
#print axioms projectOntoIntersection_on
#print axioms projectOntoIntersection_idem
#print axioms signedVolumeTet_swap01
#print axioms signedVolumeTet_swap12
#print axioms signedVolumeTet_swap02
#print axioms signedVolumeTet_swap23
#print axioms signedVolumeTet_swap13
#print axioms signedVolumeTet_swap03
#print axioms signedVolumeTet_example
#print axioms signedVolumeTet_pos_iff
#print axioms signedVolumeTet_eq
#print axioms signedAreaTri_eq
#print axioms signedAreaTri_abs
#print axioms signedAreaTri_swap
#print axioms signedAreaTri_indep_t
#print axioms signedAreaTri_pos
#print axioms signedAreaTri_neg
#print axioms signedAreaTri_pos_iff
#print axioms sphere2_on
#print axioms sphere3_on
#print axioms sphere4_on
#print axioms s4aa_eq
#print axioms s4aa_eq_det3
#print axioms contains_iff
#print axioms contains_mono
#print axioms extend_of_contains
#print axioms extend_radius_eq
#print axioms extend_contains_point
#print axioms extend_minimal

end MVoro.GeomHelpers
