/-
The invariants of an exact clip, together (T01.4 / T10.5 / T18.4 composed).

A cell is described the way the code describes it: the generator `g`, for every plane index `i` the point `nbr i` whose
bisector with `g` is that plane (a neighbour, a periodic image, or — for a wall — the mirror image of `g`, `Obl/RightLoc`),
a list `T` of dual triples and the position `loc t` of each.  A vertex is *good* (`VOK`) when

  (1) it lies on its three bisector planes (equidistant from `g` and its three neighbours),
  (2) its dual triple is positively oriented (`orient g a b c > 0`: the precondition of the exact in-sphere test),
  (3) it satisfies every half space of the cell (it is at least as close to `g` as to every `nbr i`).

`clip_invariant`: if `T` is a closed surface (C18) of good vertices and the cell is clipped by the bisector of a further point
`nbr p` with EXACT decisions (removed ⇔ strictly closer to `nbr p` than to `g`), then every kept vertex and every created
vertex `(x, y, p)` — one per boundary edge `x → y` of the removed region, placed on its three planes — is good again, with
respect to the enlarged plane set.  `CycleBoundary.closed_preserved` adds that the new triple list is closed again.  So all
four invariants the oracle asserts per cell at run time are preserved by every exact clip, for every configuration, over any
ordered field.  What remains unproved of T01.4 is only the step from these invariants to "the vertices are exactly the
extreme points of the intersection of the half spaces" (DESIGN §4 item 2).
-/
import MVoro.Props.C10
import MVoro.Proofs.CycleBoundary
import Mathlib.Tactic.FieldSimp
import Mathlib.Tactic.LinearCombination
import Mathlib.Algebra.Order.Field.Basic
import Mathlib.Tactic.NormNum

namespace MVoro.Star
open MVoro Ref MVoro.C10 MVoro.InSphereProofs MVoro.CycleBoundary

variable {α : Type} [Field α] [LinearOrder α] [IsStrictOrderedRing α]

/-- how much farther (squared) `x` is from `q` than from `g`: `0 ≤ gap g q x` iff `x` lies in the half space of `q` -/
def gap (g q x : I3 α) : α := dist2 x q - dist2 x g

/-- the point `w + t (v - w)` -/
def lerp (w v : I3 α) (t : α) : I3 α :=
  ⟨w.c0 + t * (v.c0 - w.c0), w.c1 + t * (v.c1 - w.c1), w.c2 + t * (v.c2 - w.c2)⟩

omit [LinearOrder α] [IsStrictOrderedRing α] in
/-- `gap` is affine along a segment -/
theorem gap_lerp (g q w v : I3 α) (t : α) : gap g q (lerp w v t) = (1 - t) * gap g q w + t * gap g q v := by
  simp only [gap, dist2, lerp]; ring

omit [LinearOrder α] [IsStrictOrderedRing α] in
/-- the in-sphere determinant seen from a vertex `o` on the three bisector planes: orientation × gap -/
theorem inSphere_eq_gap (g a b c v o : I3 α) (ha : gap g a o = 0) (hb : gap g b o = 0) (hc : gap g c o = 0) :
    inSphereDet g a b c v = orient g a b c * gap g v o := by
  have h := insphere_power g a b c v o (by simp only [gap, dist2] at ha ⊢; linear_combination ha)
    (by simp only [gap, dist2] at hb ⊢; linear_combination hb) (by simp only [gap, dist2] at hc ⊢; linear_combination hc)
  rw [h]; simp only [gap, dist2]; ring

/-- a point on three bisector planes with independent normals is unique -/
theorem equi_unique (g a b p o o' : I3 α) (hdet : orient g a b p ≠ 0)
    (ha : gap g a o = 0) (hb : gap g b o = 0) (hp : gap g p o = 0)
    (ha' : gap g a o' = 0) (hb' : gap g b o' = 0) (hp' : gap g p o' = 0) : o = o' := by
  simp only [gap, dist2] at ha hb hp ha' hb' hp'
  simp only [orient, bigInt, det3, det2] at hdet
  set D := (a.c0 - g.c0) * ((b.c1 - g.c1) * (p.c2 - g.c2) - (p.c1 - g.c1) * (b.c2 - g.c2))
      - (b.c0 - g.c0) * ((a.c1 - g.c1) * (p.c2 - g.c2) - (p.c1 - g.c1) * (a.c2 - g.c2))
      + (p.c0 - g.c0) * ((a.c1 - g.c1) * (b.c2 - g.c2) - (b.c1 - g.c1) * (a.c2 - g.c2)) with hD
  have h2 : (2 : α) ≠ 0 := two_ne_zero
  have e0 : 2 * D * (o.c0 - o'.c0) = 0 := by
    rw [hD]
    linear_combination (-1 : α) * ((b.c1 - g.c1) * (p.c2 - g.c2) - (p.c1 - g.c1) * (b.c2 - g.c2)) * (ha - ha')
      + ((a.c1 - g.c1) * (p.c2 - g.c2) - (p.c1 - g.c1) * (a.c2 - g.c2)) * (hb - hb')
      - ((a.c1 - g.c1) * (b.c2 - g.c2) - (b.c1 - g.c1) * (a.c2 - g.c2)) * (hp - hp')
  have e1 : 2 * D * (o.c1 - o'.c1) = 0 := by
    rw [hD]
    linear_combination ((b.c0 - g.c0) * (p.c2 - g.c2) - (p.c0 - g.c0) * (b.c2 - g.c2)) * (ha - ha')
      - ((a.c0 - g.c0) * (p.c2 - g.c2) - (p.c0 - g.c0) * (a.c2 - g.c2)) * (hb - hb')
      + ((a.c0 - g.c0) * (b.c2 - g.c2) - (b.c0 - g.c0) * (a.c2 - g.c2)) * (hp - hp')
  have e2 : 2 * D * (o.c2 - o'.c2) = 0 := by
    rw [hD]
    linear_combination (-1 : α) * ((b.c0 - g.c0) * (p.c1 - g.c1) - (p.c0 - g.c0) * (b.c1 - g.c1)) * (ha - ha')
      + ((a.c0 - g.c0) * (p.c1 - g.c1) - (p.c0 - g.c0) * (a.c1 - g.c1)) * (hb - hb')
      - ((a.c0 - g.c0) * (b.c1 - g.c1) - (b.c0 - g.c0) * (a.c1 - g.c1)) * (hp - hp')
  have hne : 2 * D ≠ 0 := mul_ne_zero h2 hdet
  have c0 := sub_eq_zero.mp ((mul_eq_zero.mp e0).resolve_left hne)
  have c1 := sub_eq_zero.mp ((mul_eq_zero.mp e1).resolve_left hne)
  have c2 := sub_eq_zero.mp ((mul_eq_zero.mp e2).resolve_left hne)
  cases o; cases o'; simp_all

/-- the edge `w → v` of the old cell (both ends on the planes of `a` and `b`; `w` kept, `v` removed by `p`) crosses the plane
of `p` in exactly one point, the created vertex `u`; it is a convex combination of `w` and `v` -/
theorem crossing (g a b p w v u : I3 α) (hdet : orient g a b p ≠ 0)
    (hwa : gap g a w = 0) (hwb : gap g b w = 0) (hva : gap g a v = 0) (hvb : gap g b v = 0)
    (hw : 0 ≤ gap g p w) (hv : gap g p v < 0)
    (hua : gap g a u = 0) (hub : gap g b u = 0) (hup : gap g p u = 0) :
    ∃ t : α, 0 ≤ t ∧ t < 1 ∧ u = lerp w v t := by
  have hpos : 0 < gap g p w - gap g p v := by linarith
  refine ⟨gap g p w / (gap g p w - gap g p v), div_nonneg hw hpos.le, ?_, ?_⟩
  · rw [div_lt_one hpos]; linarith
  · apply equi_unique g a b p u _ hdet hua hub hup
    · rw [gap_lerp, hwa, hva]; ring
    · rw [gap_lerp, hwb, hvb]; ring
    · rw [gap_lerp]; field_simp; ring

/-- **one boundary edge of an exact clip.**  `v = (a, b, c)` at `ov` is removed, `w = (b, a, d)` at `ow` across the edge is
kept; both are on their planes and positively oriented, and `v` satisfies the half space of `d`.  Then the created vertex
`(a, b, p)` at `u` (on its three planes) is positively oriented and satisfies every half space that `v` and `w` satisfy. -/
theorem clip_edge (g a b c d p ov ow u : I3 α)
    (hva : gap g a ov = 0) (hvb : gap g b ov = 0) (hvc : gap g c ov = 0) (hvo : 0 < orient g a b c)
    (hwb : gap g b ow = 0) (hwa : gap g a ow = 0) (hwd : gap g d ow = 0) (hwo : 0 < orient g b a d)
    (hvd : 0 ≤ gap g d ov)
    (hremoved : gap g p ov < 0) (hkept : 0 ≤ gap g p ow)
    (hua : gap g a u = 0) (hub : gap g b u = 0) (hup : gap g p u = 0) :
    0 < orient g a b p ∧ ∀ q : I3 α, 0 ≤ gap g q ov → 0 ≤ gap g q ow → 0 ≤ gap g q u := by
  have i1 : inSphereDet g a b c p < 0 := by
    rw [inSphere_eq_gap g a b c p ov hva hvb hvc]; exact mul_neg_of_pos_of_neg hvo hremoved
  have i2 : 0 ≤ inSphereDet g b a d p := by
    rw [inSphere_eq_gap g b a d p ow hwb hwa hwd]; exact mul_nonneg hwo.le hkept
  have i3 : 0 ≤ inSphereDet g a b c d := by
    rw [inSphere_eq_gap g a b c d ov hva hvb hvc]; exact mul_nonneg hvo.le hvd
  have hor := (Orientation.new_triple_oriented g a b c d p hvo hwo i1 i2 i3).1
  refine ⟨hor, fun q h1 h2 => ?_⟩
  obtain ⟨t, t0, t1, rfl⟩ := crossing g a b p ow ov u hor.ne' hwa hwb hva hvb hkept hremoved hua hub hup
  rw [gap_lerp]
  have : 0 ≤ 1 - t := by linarith
  positivity

/-! ### the whole clip -/

/-- a good vertex: on its three planes, positively oriented, inside every half space of `planes` -/
def VOK (g : I3 α) (nbr : Nat → I3 α) (planes : List Nat) (t : Dual) (o : I3 α) : Prop :=
  gap g (nbr t.a) o = 0 ∧ gap g (nbr t.b) o = 0 ∧ gap g (nbr t.c) o = 0 ∧
  0 < orient g (nbr t.a) (nbr t.b) (nbr t.c) ∧ ∀ i ∈ planes, 0 ≤ gap g (nbr i) o

omit [LinearOrder α] [IsStrictOrderedRing α] in
theorem orient_rot (g a b c : I3 α) : orient g b c a = orient g a b c := by
  simp only [orient, bigInt, det3, det2]; ring

set_option linter.unusedSectionVars false in
/-- goodness does not depend on the rotation of the dual triple -/
theorem VOK_rot (g : I3 α) (nbr : Nat → I3 α) (planes : List Nat) (t : Dual) (o : I3 α) (h : VOK g nbr planes t o) :
    VOK g nbr planes t.rot o := by
  obtain ⟨h1, h2, h3, h4, h5⟩ := h
  exact ⟨h2, h3, h1, by simpa [Dual.rot, orient_rot] using h4, h5⟩

set_option linter.unusedSectionVars false in
/-- a good vertex that contains the directed edge `(x, y)` is good as the triple `(x, y, z)` for its third index `z` -/
theorem VOK_edge (g : I3 α) (nbr : Nat → I3 α) (planes : List Nat) (t : Dual) (o : I3 α) (h : VOK g nbr planes t o)
    (x y : Nat) (he : (x, y) ∈ t.edges) :
    ∃ z, (z = t.a ∨ z = t.b ∨ z = t.c) ∧ VOK g nbr planes ⟨x, y, z⟩ o := by
  rw [mem_edges] at he
  rcases he with he | he | he <;> simp only [Prod.mk.injEq] at he <;> obtain ⟨rfl, rfl⟩ := he
  · exact ⟨t.c, Or.inr (Or.inr rfl), h⟩
  · exact ⟨t.a, Or.inl rfl, VOK_rot g nbr planes t o h⟩
  · exact ⟨t.b, Or.inr (Or.inl rfl), VOK_rot g nbr planes _ o (VOK_rot g nbr planes t o h)⟩

open Classical in
/-- **all vertex invariants are preserved by an exact clip** (see the head of this file) -/
theorem clip_invariant (g : I3 α) (nbr : Nat → I3 α) (planes : List Nat) (T : List Dual) (loc : Dual → I3 α) (p : Nat)
    (hclosed : Closed T)
    (hidx : ∀ t ∈ T, t.a ∈ planes ∧ t.b ∈ planes ∧ t.c ∈ planes)
    (hok : ∀ t ∈ T, VOK g nbr planes t (loc t)) :
    let R := T.filter fun t => decide (gap g (nbr p) (loc t) < 0)
    (∀ t ∈ T, t ∉ R → VOK g nbr (p :: planes) t (loc t)) ∧
    (∀ e ∈ bdry R, ∀ u : I3 α, gap g (nbr e.1) u = 0 → gap g (nbr e.2) u = 0 → gap g (nbr p) u = 0 →
      VOK g nbr (p :: planes) ⟨e.1, e.2, p⟩ u) := by
  intro R
  have memR : ∀ t, t ∈ R ↔ t ∈ T ∧ gap g (nbr p) (loc t) < 0 := by
    intro t; simp [R, List.mem_filter]
  constructor
  · intro t ht hnot
    obtain ⟨h1, h2, h3, h4, h5⟩ := hok t ht
    refine ⟨h1, h2, h3, h4, ?_⟩
    intro i hi
    rcases List.mem_cons.mp hi with rfl | hi
    · by_contra hneg
      exact hnot ((memR t).mpr ⟨ht, not_le.mp hneg⟩)
    · exact h5 i hi
  · rintro ⟨x, y⟩ he u hux huy hup
    rw [mem_bdry] at he
    obtain ⟨hin, hrev⟩ := he
    obtain ⟨v, hvR, hve⟩ := mem_edgesOf.mp hin
    obtain ⟨hvT, hvrem⟩ := (memR v).mp hvR
    -- the vertex across the edge exists (closed surface) and was kept
    have hinT : (x, y) ∈ edgesOf T := mem_edgesOf.mpr ⟨v, hvT, hve⟩
    obtain ⟨w, hwT, hwe⟩ := mem_edgesOf.mp (hclosed.2 _ hinT)
    have hwkept : 0 ≤ gap g (nbr p) (loc w) := by
      by_contra hneg
      exact hrev (mem_edgesOf.mpr ⟨w, (memR w).mpr ⟨hwT, not_le.mp hneg⟩, hwe⟩)
    obtain ⟨c, _, hvok⟩ := VOK_edge g nbr planes v (loc v) (hok v hvT) x y hve
    obtain ⟨d, hd, hwok⟩ := VOK_edge g nbr planes w (loc w) (hok w hwT) y x hwe
    have hdp : d ∈ planes := by
      obtain ⟨ia, ib, ic⟩ := hidx w hwT
      rcases hd with rfl | rfl | rfl <;> assumption
    obtain ⟨va, vb, vc, vo, vf⟩ := hvok
    obtain ⟨wb, wa, wd, wo, wf⟩ := hwok
    obtain ⟨hor, hfeas⟩ := clip_edge g (nbr x) (nbr y) (nbr c) (nbr d) (nbr p) (loc v) (loc w) u
      va vb vc vo wb wa wd wo (vf d hdp) hvrem hwkept hux huy hup
    refine ⟨hux, huy, hup, hor, ?_⟩
    intro i hi
    rcases List.mem_cons.mp hi with rfl | hi
    · exact hup.ge
    · exact hfeas (nbr i) (vf i hi) (wf i hi)

def g0 : I3 ℚ := ⟨1, 2, 1⟩
def nbr0 : Nat → I3 ℚ
  | 0 => ⟨-1, 2, 1⟩ | 1 => ⟨7, 2, 1⟩ | 2 => ⟨1, -2, 1⟩ | 3 => ⟨1, 6, 1⟩ | 4 => ⟨1, 2, -1⟩ | _ => ⟨1, 2, 7⟩
def T0 : List Dual := [⟨2, 5, 0⟩, ⟨5, 3, 0⟩, ⟨1, 5, 2⟩, ⟨5, 1, 3⟩, ⟨4, 2, 0⟩, ⟨4, 0, 3⟩, ⟨2, 4, 1⟩, ⟨4, 3, 1⟩]
def has (t : Dual) (i : Nat) : Bool := t.a == i || t.b == i || t.c == i
def loc0 (t : Dual) : I3 ℚ := ⟨if has t 0 then 0 else 4, if has t 2 then 0 else 4, if has t 4 then 0 else 4⟩

/-- non-vacuity: the initial box cell (box `[0,4]³`, generator `(1,2,1)`, walls as bisectors of the mirror images, the 8 dual
triples of `ConvexCell::init`) is a closed surface … -/
example : Closed T0 := by
  constructor
  · decide
  · decide

/-- … of good vertices (on their planes, positively oriented, feasible): the hypotheses of `clip_invariant` hold for it -/
example : ∀ t ∈ T0, VOK g0 nbr0 [0, 1, 2, 3, 4, 5] t (loc0 t) := by
  intro t ht
  simp only [T0, List.mem_cons, List.mem_nil_iff, or_false] at ht
  rcases ht with rfl | rfl | rfl | rfl | rfl | rfl | rfl | rfl <;>
    simp [VOK, gap, dist2, orient, bigInt, det3, det2, g0, nbr0, loc0, has] <;> norm_num

#print axioms MVoro.Star.clip_invariant
end MVoro.Star
