/-
Bookkeeping theorems for the tessellation model `MVoro.Model.Tess`
(finalize / face_indices / neighbour_ids / storage rule / integrator routes / zipData).
-/
import MVoro.Model.Tess
import Mathlib.Data.List.Nodup

namespace MVoro.TessBook
open MVoro.Tess

/-! ## Well-formedness and the specification of a slice -/

/-- every face refers to generators `< n` only -/
def WF (n : Nat) (faces : List Face) : Prop :=
  ∀ f ∈ faces, f.left < n ∧ ∀ r, f.right = some r → r < n

/-- how often cell `c` is linked to the face with index `i` -/
def occ (faces : List Face) (c i : Nat) : Nat :=
  match faces[i]? with
  | some f => (links f).count c
  | none => 0

/-- the slice of cell `c`: face indices ascending, with multiplicity -/
def sliceSpec (faces : List Face) (c : Nat) : List Nat :=
  (List.range faces.length).flatMap fun i => List.replicate (occ faces c i) i

/-- recursive form of the slice, starting the numbering at `k` -/
def sliceFrom (c : Nat) : Nat → List Face → List Nat
  | _, [] => []
  | k, f :: fs => List.replicate ((links f).count c) k ++ sliceFrom c (k + 1) fs

theorem mem_links {f : Face} {c : Nat} :
    c ∈ links f ↔ c = f.left ∨ (f.shifted = false ∧ f.right = some c) := by
  unfold links
  split <;> simp_all
  · grind
  · grind

theorem sliceFrom_eq (c : Nat) (k : Nat) (faces : List Face) :
    sliceFrom c k faces =
      (List.range faces.length).flatMap fun i => List.replicate (occ faces c i) (k + i) := by
  induction faces generalizing k with
  | nil => simp [sliceFrom]
  | cons f fs ih =>
    simp only [sliceFrom, List.length_cons, List.range_succ_eq_map, List.flatMap_cons,
      List.flatMap_map, ih]
    congr 1
    apply List.flatMap_congr
    intro i _
    simp [occ, Nat.add_assoc, Nat.add_comm 1 i]

theorem sliceFrom_zero (c : Nat) (faces : List Face) : sliceFrom c 0 faces = sliceSpec faces c := by
  simp [sliceFrom_eq, sliceSpec]

/-! ## The fold of `finalize` -/

theorem pushAt_getElem? (acc : List (List Nat)) (c i d : Nat) :
    (pushAt acc c i)[d]? = acc[d]?.map (fun l => if c = d then l ++ [i] else l) := by
  simp [pushAt, List.getElem?_modify]

theorem inner_getElem? (ls : List Nat) (acc : List (List Nat)) (i d : Nat) :
    (ls.foldl (fun a c => pushAt a c i) acc)[d]? =
      acc[d]?.map (fun l => l ++ List.replicate (ls.count d) i) := by
  induction ls generalizing acc with
  | nil => simp
  | cons x xs ih =>
    simp only [List.foldl_cons, ih, pushAt_getElem?]
    cases acc[d]? with
    | none => simp
    | some l =>
      by_cases h : x = d
      · subst h; simp [List.replicate_succ]
      · simp [h]

theorem outer_getElem? (faces : List Face) (k : Nat) (acc : List (List Nat)) (d : Nat) :
    ((enumFrom k faces).foldl
        (fun acc (p : Nat × Face) => (links p.2).foldl (fun a c => pushAt a c p.1) acc) acc)[d]? =
      acc[d]?.map (fun l => l ++ sliceFrom d k faces) := by
  induction faces generalizing k acc with
  | nil => simp [enumFrom, sliceFrom]
  | cons f fs ih =>
    simp only [enumFrom, List.foldl_cons, ih, inner_getElem?, sliceFrom]
    cases acc[d]? <;> simp

/-- the `finalize` loop computes, for every cell, its slice -/
theorem connLists_eq (n : Nat) (faces : List Face) :
    connLists n faces = (List.range n).map (sliceSpec faces) := by
  apply List.ext_getElem?
  intro d
  have := outer_getElem? faces 0 (List.replicate n []) d
  unfold connLists
  rw [this]
  by_cases h : d < n <;> simp [h, sliceFrom_zero]

theorem connLists_length (n : Nat) (faces : List Face) : (connLists n faces).length = n := by
  simp [connLists_eq]

/-! ## offsets / counts -/

theorem offsets_length (k : Nat) (ls : List (List Nat)) : (offsets k ls).length = ls.length := by
  induction ls generalizing k with
  | nil => simp [offsets]
  | cons l ls ih => simp [offsets, ih]

theorem offsets_getElem? (k : Nat) (ls : List (List Nat)) (c : Nat) :
    (offsets k ls)[c]? =
      ls[c]?.map (fun l => (k + ((ls.take c).map List.length).sum, l.length)) := by
  induction ls generalizing k c with
  | nil => simp [offsets]
  | cons l ls ih =>
    cases c with
    | zero => simp [offsets]
    | succ c =>
      simp only [offsets, List.getElem?_cons_succ, ih, List.take_succ_cons, List.map_cons,
        List.sum_cons, Nat.add_assoc]

theorem drop_sum_flatten (ls : List (List Nat)) (c : Nat) :
    ls.flatten.drop ((ls.take c).map List.length).sum = (ls.drop c).flatten := by
  induction ls generalizing c with
  | nil => simp
  | cons l ls ih =>
    cases c with
    | zero => simp
    | succ c =>
      simp only [List.take_succ_cons, List.map_cons, List.sum_cons, List.flatten_cons,
        List.drop_succ_cons, ← ih]
      rw [List.drop_append]
      simp

/-- position `c` of the cell vector produced by `finalize` -/
theorem finalize_cells_getElem? (cells : List (Nat × Bool)) (faces : List Face) (c : Nat) :
    (finalize cells faces).cells[c]? =
      cells[c]?.map (fun p =>
        ⟨p.1, p.2, ((List.range c).map fun d => (sliceSpec faces d).length).sum,
          (sliceSpec faces c).length⟩) := by
  simp only [finalize, List.getElem?_map, connLists_eq]
  rw [List.zip, List.getElem?_zipWith', offsets_getElem?]
  by_cases h : c < cells.length
  · simp [h, ← List.map_take, List.take_range, Nat.min_eq_left (Nat.le_of_lt h)]
    rfl
  · simp [List.getElem?_eq_none (Nat.le_of_not_lt h)]

/-! ## T12.1 `finalize` is a consistent index structure -/

theorem finalize_faces (cells : List (Nat × Bool)) (faces : List Face) :
    (finalize cells faces).faces = faces := rfl

theorem finalize_conn (cells : List (Nat × Bool)) (faces : List Face) :
    (finalize cells faces).conn = ((List.range cells.length).map (sliceSpec faces)).flatten := by
  simp [finalize, connLists_eq]

theorem cells_length (cells : List (Nat × Bool)) (faces : List Face) :
    (finalize cells faces).cells.length = cells.length := by
  simp [finalize, offsets_length, connLists_length]

theorem cells_map_count (cells : List (Nat × Bool)) (faces : List Face) :
    (finalize cells faces).cells.map (·.count) =
      (List.range cells.length).map (fun d => (sliceSpec faces d).length) := by
  apply List.ext_getElem?
  intro c
  rw [List.getElem?_map, finalize_cells_getElem?]
  by_cases h : c < cells.length
  · simp [h]
  · simp [h]

/-- the record at position `c` -/
theorem cells_getElem (cells : List (Nat × Bool)) (faces : List Face) (c : Nat)
    (h : c < (finalize cells faces).cells.length) :
    (finalize cells faces).cells[c] =
      ⟨(cells[c]'(by simpa [cells_length] using h)).1, (cells[c]'(by simpa [cells_length] using h)).2,
        ((List.range c).map fun d => (sliceSpec faces d).length).sum, (sliceSpec faces c).length⟩ := by
  have hc : c < cells.length := by simpa [cells_length] using h
  have := finalize_cells_getElem? cells faces c
  rw [List.getElem?_eq_getElem h, List.getElem?_eq_getElem hc] at this
  simpa using this

/-- T12.1(b): offsets are the prefix sums of the counts, idx / constructed are the given ones,
the counts add up to the length of the connectivity array. No hypothesis on the faces needed. -/
theorem offsets_prefix (cells : List (Nat × Bool)) (faces : List Face) :
    let v := finalize cells faces
    v.cells.length = cells.length ∧
    (∀ c (h : c < v.cells.length) (hc : c < cells.length),
        v.cells[c].idx = cells[c].1 ∧ v.cells[c].constructed = cells[c].2 ∧
        v.cells[c].offset = ((v.cells.take c).map (·.count)).sum ∧
        v.cells[c].offset + v.cells[c].count ≤ v.conn.length) ∧
    (v.cells.map (·.count)).sum = v.conn.length := by
  intro v
  have hlen : v.cells.length = cells.length := cells_length cells faces
  have htot : (v.cells.map (·.count)).sum = v.conn.length := by
    simp only [v, cells_map_count, finalize_conn, List.length_flatten, List.map_map]
    rfl
  refine ⟨hlen, ?_, htot⟩
  intro c h hc
  have hoff : v.cells[c].offset = ((v.cells.take c).map (·.count)).sum := by
    rw [cells_getElem cells faces c h, List.map_take, cells_map_count, ← List.map_take,
      List.take_range, Nat.min_eq_left (Nat.le_of_lt hc)]
  refine ⟨by rw [cells_getElem cells faces c h], by rw [cells_getElem cells faces c h], hoff, ?_⟩
  rw [hoff, ← htot]
  have : v.cells = v.cells.take c ++ v.cells[c] :: v.cells.drop (c + 1) := by
    simp
  conv => rhs; rw [this]
  simp only [List.map_append, List.map_cons, List.sum_append, List.sum_cons]
  omega

/-- T12.1(b), last cell: its offset + count is the length of `conn` -/
theorem last_offset_count (cells : List (Nat × Bool)) (faces : List Face) (c : Nat)
    (h : c < (finalize cells faces).cells.length) (hlast : c + 1 = cells.length) :
    (finalize cells faces).cells[c].offset + (finalize cells faces).cells[c].count =
      (finalize cells faces).conn.length := by
  obtain ⟨hlen, hall, htot⟩ := offsets_prefix cells faces
  have hc : c < cells.length := by omega
  obtain ⟨_, _, hoff, _⟩ := hall c h hc
  rw [hoff, ← htot]
  have : (finalize cells faces).cells =
      (finalize cells faces).cells.take c ++ [(finalize cells faces).cells[c]] := by
    rw [← List.take_succ_eq_append_getElem h, List.take_of_length_le (by omega)]
  have e := congrArg (fun l => (l.map (·.count)).sum) this
  simp only [List.map_append, List.sum_append, List.map_cons, List.map_nil, List.sum_cons,
    List.sum_nil] at e
  omega

/-! ### T12.1(a) length of `conn` -/

theorem sumLen_modify (acc : List (List Nat)) (c i : Nat) (h : c < acc.length) :
    ((pushAt acc c i).map List.length).sum = (acc.map List.length).sum + 1 := by
  unfold pushAt
  induction acc generalizing c with
  | nil => simp at h
  | cons l ls ih =>
    cases c with
    | zero => simp; omega
    | succ c =>
      simp only [List.modify_succ_cons, List.map_cons, List.sum_cons]
      rw [ih c (by simpa using h)]
      omega

theorem pushAt_length (acc : List (List Nat)) (c i : Nat) : (pushAt acc c i).length = acc.length := by
  simp [pushAt]

theorem inner_sumLen (ls : List Nat) (acc : List (List Nat)) (i : Nat) (h : ∀ c ∈ ls, c < acc.length) :
    (ls.foldl (fun a c => pushAt a c i) acc).length = acc.length ∧
    ((ls.foldl (fun a c => pushAt a c i) acc).map List.length).sum =
      (acc.map List.length).sum + ls.length := by
  induction ls generalizing acc with
  | nil => simp
  | cons x xs ih =>
    have hx : x < acc.length := h x (by simp)
    have := ih (pushAt acc x i) (by intro c hc; rw [pushAt_length]; exact h c (by simp [hc]))
    simp only [List.foldl_cons, List.length_cons]
    rw [this.1, this.2, sumLen_modify acc x i hx, pushAt_length]
    omega

theorem outer_sumLen (faces : List Face) (k : Nat) (acc : List (List Nat))
    (h : ∀ f ∈ faces, ∀ c ∈ links f, c < acc.length) :
    (((enumFrom k faces).foldl
        (fun acc (p : Nat × Face) => (links p.2).foldl (fun a c => pushAt a c p.1) acc) acc).map
          List.length).sum =
      (acc.map List.length).sum + (faces.map fun f => (links f).length).sum := by
  induction faces generalizing k acc with
  | nil => simp [enumFrom]
  | cons f fs ih =>
    have h1 := inner_sumLen (links f) acc k (h f (by simp))
    simp only [enumFrom, List.foldl_cons, List.map_cons, List.sum_cons]
    rw [ih, h1.2]
    · omega
    · intro g hg c hc
      rw [h1.1]
      exact h g (by simp [hg]) c hc

theorem WF_links {n : Nat} {faces : List Face} (h : WF n faces) :
    ∀ f ∈ faces, ∀ c ∈ links f, c < n := by
  intro f hf c hc
  rcases mem_links.1 hc with rfl | ⟨_, hr⟩
  · exact (h f hf).1
  · exact (h f hf).2 c hr

/-- T12.1(a) -/
theorem conn_length (cells : List (Nat × Bool)) (faces : List Face) (h : WF cells.length faces) :
    (finalize cells faces).conn.length = (faces.map fun f => (links f).length).sum := by
  have := outer_sumLen faces 0 (List.replicate cells.length [])
    (by simpa using WF_links h)
  simp only [finalize, List.length_flatten, connLists]
  rw [this]
  simp

/-! ### T12.1(c) `faceIndices` -/

theorem take_drop_flatten (ls : List (List Nat)) (c : Nat) (h : c < ls.length) :
    ((ls.flatten.drop ((ls.take c).map List.length).sum).take ls[c].length) = ls[c] := by
  rw [drop_sum_flatten, List.drop_eq_getElem_cons h, List.flatten_cons, List.take_left']
  rfl

/-- T12.1(c): the slice of cell `c` lists the face indices ascending, each as often as `c`
occurs in `links` of that face.  No hypothesis on the faces needed. -/
theorem faceIndices_spec (cells : List (Nat × Bool)) (faces : List Face) (c : Nat)
    (h : c < (finalize cells faces).cells.length) :
    faceIndices (finalize cells faces) (finalize cells faces).cells[c] = sliceSpec faces c := by
  have hc : c < cells.length := by simpa [cells_length] using h
  rw [cells_getElem cells faces c h]
  simp only [faceIndices, finalize_conn]
  have := take_drop_flatten ((List.range cells.length).map (sliceSpec faces)) c (by simpa using hc)
  simp only [List.getElem_map, List.getElem_range, ← List.map_take, List.take_range,
    Nat.min_eq_left (Nat.le_of_lt hc), List.map_map] at this
  exact this

theorem mem_sliceSpec {faces : List Face} {c i : Nat} :
    i ∈ sliceSpec faces c ↔ ∃ f, faces[i]? = some f ∧ c ∈ links f := by
  simp only [sliceSpec, List.mem_flatMap, List.mem_range, List.mem_replicate, occ]
  constructor
  · rintro ⟨a, ha, hne, rfl⟩
    rw [List.getElem?_eq_getElem ha] at hne ⊢
    exact ⟨_, rfl, List.count_pos_iff.1 (Nat.pos_of_ne_zero hne)⟩
  · rintro ⟨f, hf, hc⟩
    have hi : i < faces.length := (List.getElem?_eq_some_iff.1 hf).1
    refine ⟨i, hi, ?_, rfl⟩
    rw [hf]
    exact Nat.ne_of_gt (List.count_pos_iff.2 hc)

/-- T12.1(c), membership form -/
theorem faceIndices_mem (cells : List (Nat × Bool)) (faces : List Face) (c : Nat)
    (h : c < (finalize cells faces).cells.length) (i : Nat) :
    i ∈ faceIndices (finalize cells faces) (finalize cells faces).cells[c] ↔
      ∃ f, faces[i]? = some f ∧ c ∈ links f := by
  rw [faceIndices_spec cells faces c h, mem_sliceSpec]

/-- T12.1(c) in words: face `i` is in the slice of its left cell, in the slice of its right cell
iff it has a right generator and no shift, and in no other slice. -/
theorem faceIndices_mem' (cells : List (Nat × Bool)) (faces : List Face) (c : Nat)
    (h : c < (finalize cells faces).cells.length) (i : Nat) (f : Face) (hf : faces[i]? = some f) :
    i ∈ faceIndices (finalize cells faces) (finalize cells faces).cells[c] ↔
      c = f.left ∨ (f.shifted = false ∧ f.right = some c) := by
  rw [faceIndices_mem cells faces c h, ← mem_links]
  simp [hf]

/-! ## T12.2 `neighbourIds` -/

/-- the neighbour reported for face index `i` when asked from cell `c` -/
def nbrOf (faces : List Face) (c i : Nat) : Option Nat :=
  match faces[i]? with
  | some f =>
    match f.right, f.shifted with
    | some r, false => some (if f.left = c then r else f.left)
    | _, _ => none
  | none => none

/-- T12.2, list form: for every face index of the slice (in order) whose face is unshifted and has
a right generator, the other side. -/
theorem neighbourIds_spec (cells : List (Nat × Bool)) (faces : List Face) (c : Nat)
    (h : c < (finalize cells faces).cells.length)
    (hidx : (finalize cells faces).cells[c].idx = c) :
    neighbourIds (finalize cells faces) (finalize cells faces).cells[c] =
      (faceIndices (finalize cells faces) (finalize cells faces).cells[c]).filterMap
        (nbrOf faces c) := by
  unfold neighbourIds
  rw [hidx, finalize_faces]
  congr 1
  funext i
  unfold nbrOf
  cases faces[i]? with
  | none => rfl
  | some f =>
    rcases hr : f.right with _ | r <;> rcases hs : f.shifted with _ | _ <;> simp [hr, hs]

/-- (h1) no unshifted face has its own left generator as right generator -/
def NoSelf (faces : List Face) : Prop :=
  ∀ f ∈ faces, f.shifted = false → f.right ≠ some f.left

/-- (h2) among the unshifted faces with a right generator, the unordered pair of generators
determines the face index -/
def PairUnique (faces : List Face) : Prop :=
  ∀ (i j : Nat) (f g : Face) (r s : Nat), faces[i]? = some f → faces[j]? = some g →
    f.shifted = false → g.shifted = false → f.right = some r → g.right = some s →
    ((f.left = g.left ∧ r = s) ∨ (f.left = s ∧ r = g.left)) → i = j

theorem flatMap_replicate_le_one (l : List Nat) (k : Nat → Nat) (hk : ∀ i ∈ l, k i ≤ 1) :
    l.flatMap (fun i => List.replicate (k i) i) = l.filter (fun i => k i ≠ 0) := by
  induction l with
  | nil => rfl
  | cons a l ih =>
    have ha := hk a (by simp)
    rw [List.flatMap_cons, ih (fun i hi => hk i (by simp [hi])), List.filter_cons]
    rcases Nat.le_one_iff_eq_zero_or_eq_one.1 ha with h0 | h1
    · simp [h0]
    · simp [h1]

theorem occ_le_one {faces : List Face} (h1 : NoSelf faces) (c i : Nat) : occ faces c i ≤ 1 := by
  unfold occ
  split
  · rename_i f hf
    have hmem : f ∈ faces := List.mem_of_getElem? hf
    have := h1 f hmem
    unfold links
    split
    · rename_i r hr hs
      have hne : r ≠ f.left := by
        intro e; subst e; exact this hs hr
      simp only [List.count_cons, List.count_nil]
      grind
    · simp only [List.count_cons, List.count_nil]
      grind
  · omega

/-- under (h1) a slice has no repeated face index -/
theorem sliceSpec_nodup {faces : List Face} (h1 : NoSelf faces) (c : Nat) :
    (sliceSpec faces c).Nodup := by
  unfold sliceSpec
  rw [flatMap_replicate_le_one _ _ (fun i _ => occ_le_one h1 c i)]
  exact List.nodup_range.filter _

theorem nodup_filterMap_of_inj {α β} {g : α → Option β} {l : List α} (hl : l.Nodup)
    (hinj : ∀ a ∈ l, ∀ a' ∈ l, ∀ b, g a = some b → g a' = some b → a = a') :
    (l.filterMap g).Nodup := by
  induction l with
  | nil => simp
  | cons a l ih =>
    rw [List.nodup_cons] at hl
    have ih' := ih hl.2 (fun x hx y hy b => hinj x (by simp [hx]) y (by simp [hy]) b)
    rw [List.filterMap_cons]
    cases hg : g a with
    | none => exact ih'
    | some b =>
      simp only
      rw [List.nodup_cons]
      refine ⟨?_, ih'⟩
      intro hb
      obtain ⟨a', ha', hga'⟩ := List.mem_filterMap.1 hb
      have := hinj a (by simp) a' (by simp [ha']) b hg hga'
      subst this
      exact hl.1 ha'

theorem nbrOf_eq_some {faces : List Face} {c i x : Nat} :
    nbrOf faces c i = some x ↔
      ∃ f r, faces[i]? = some f ∧ f.shifted = false ∧ f.right = some r ∧
        x = (if f.left = c then r else f.left) := by
  unfold nbrOf
  cases faces[i]? with
  | none => simp
  | some f =>
    rcases hr : f.right with _ | r <;> rcases hs : f.shifted with _ | _ <;> simp [hr, hs]
    grind

/-- T12.2: under (h1) and (h2) the neighbour list of cell `c` does not contain `c`, has no
duplicates, and contains `x` iff some unshifted face has the generator pair `{c, x}`. -/
theorem neighbourIds_props (cells : List (Nat × Bool)) (faces : List Face) (c : Nat)
    (h : c < (finalize cells faces).cells.length)
    (hidx : (finalize cells faces).cells[c].idx = c)
    (h1 : NoSelf faces) (h2 : PairUnique faces) :
    let N := neighbourIds (finalize cells faces) (finalize cells faces).cells[c]
    c ∉ N ∧ N.Nodup ∧
    ∀ x, x ∈ N ↔ ∃ f ∈ faces, f.shifted = false ∧
        ((f.left = c ∧ f.right = some x) ∨ (f.left = x ∧ f.right = some c)) := by
  intro N
  have hN : N = (sliceSpec faces c).filterMap (nbrOf faces c) := by
    simp only [N]
    rw [neighbourIds_spec cells faces c h hidx, faceIndices_spec cells faces c h]
  -- what an entry of the list looks like
  have key : ∀ i x, i ∈ sliceSpec faces c → nbrOf faces c i = some x →
      ∃ f, faces[i]? = some f ∧ f.shifted = false ∧
        ((f.left = c ∧ f.right = some x ∧ x ≠ c) ∨ (f.left = x ∧ f.right = some c ∧ x ≠ c)) := by
    intro i x hi hx
    obtain ⟨f, r, hf, hs, hr, hxe⟩ := nbrOf_eq_some.1 hx
    obtain ⟨f', hf', hc⟩ := mem_sliceSpec.1 hi
    have : f' = f := by rw [hf] at hf'; exact (Option.some.inj hf').symm
    subst this
    have hmem : f' ∈ faces := List.mem_of_getElem? hf
    have hns := h1 f' hmem hs
    rw [mem_links] at hc
    refine ⟨f', hf, hs, ?_⟩
    grind
  refine ⟨?_, ?_, ?_⟩
  · rw [hN, List.mem_filterMap]
    rintro ⟨i, hi, hx⟩
    obtain ⟨f, _, _, hh⟩ := key i c hi hx
    grind
  · rw [hN]
    apply nodup_filterMap_of_inj (sliceSpec_nodup h1 c)
    intro i hi j hj x hxi hxj
    obtain ⟨f, hf, hfs, hfc⟩ := key i x hi hxi
    obtain ⟨g, hg, hgs, hgc⟩ := key j x hj hxj
    rcases hfc with ⟨a1, a2, _⟩ | ⟨a1, a2, _⟩ <;> rcases hgc with ⟨b1, b2, _⟩ | ⟨b1, b2, _⟩
    · exact h2 i j f g _ _ hf hg hfs hgs a2 b2 (Or.inl ⟨by omega, rfl⟩)
    · exact h2 i j f g _ _ hf hg hfs hgs a2 b2 (Or.inr ⟨by omega, by omega⟩)
    · exact h2 i j f g _ _ hf hg hfs hgs a2 b2 (Or.inr ⟨by omega, by omega⟩)
    · exact h2 i j f g _ _ hf hg hfs hgs a2 b2 (Or.inl ⟨by omega, rfl⟩)
  · intro x
    rw [hN, List.mem_filterMap]
    constructor
    · rintro ⟨i, hi, hx⟩
      obtain ⟨f, hf, hfs, hfc⟩ := key i x hi hx
      exact ⟨f, List.mem_of_getElem? hf, hfs, by grind⟩
    · rintro ⟨f, hf, hfs, hfc⟩
      obtain ⟨i, hi⟩ := List.mem_iff_getElem?.1 hf
      refine ⟨i, mem_sliceSpec.2 ⟨f, hi, mem_links.2 (by grind)⟩, ?_⟩
      rw [nbrOf_eq_some]
      rcases hfc with ⟨a1, a2⟩ | ⟨a1, a2⟩
      · exact ⟨f, x, hi, hfs, a2, by simp [a1]⟩
      · exact ⟨f, c, hi, hfs, a2, by grind⟩

/-! ## T13.1 the two routes agree -/

theorem maskedOut_allTrue (n r : Nat) : maskedOut (some (List.replicate n true)) r = false := by
  simp only [maskedOut, List.getD_eq_getElem?_getD, List.getElem?_replicate]
  split <;> simp

theorem shouldConstruct_allTrue (n idx : Nat) (p : PlaneInfo) :
    shouldConstruct idx (some (List.replicate n true)) p = shouldConstruct idx none p := by
  unfold shouldConstruct
  simp only [maskedOut_allTrue]
  simp [maskedOut]

theorem cellFaces_allTrue (n : Nat) (c : CellInfo) :
    cellFaces (some (List.replicate n true)) c = cellFaces none c := by
  unfold cellFaces
  simp only [shouldConstruct_allTrue]

/-- T13.1.  Holds for every mask (the length hypothesis `m.length = n` is not needed in the model,
which reads masks with `getD`). -/
theorem routes_equal (u : Nat → Nat) (n : Nat) (cellOf : Nat → CellInfo) (mask : Option (List Bool)) :
    buildViaIntegrator u n cellOf mask = build u n cellOf mask := by
  cases mask with
  | some m => rfl
  | none =>
    unfold buildViaIntegrator build
    have hact : ∀ i ∈ List.range n, (List.replicate n true).getD i false = true := by
      intro i hi
      have : i < n := List.mem_range.1 hi
      rw [List.getD_eq_getElem?_getD, List.getElem?_replicate]
      simp [this]
    have e1 : (List.range n).map (fun i =>
          if (List.replicate n true).getD i false then ((cellOf i).idx, true) else (u i, false)) =
        (List.range n).map (fun i => if isActive none i then ((cellOf i).idx, true) else (u i, false)) := by
      apply List.map_congr_left
      intro i hi
      rw [if_pos (hact i hi)]
      simp [isActive]
    have e2 : (List.range n).map (fun i =>
          if (List.replicate n true).getD i false then
            cellFaces (some (List.replicate n true)) (cellOf i) else []) =
        (List.range n).map (fun i => if isActive none i then cellFaces none (cellOf i) else []) := by
      apply List.map_congr_left
      intro i hi
      rw [if_pos (hact i hi)]
      simp [isActive, cellFaces_allTrue]
    simp only [e1, e2]

/-! ## T13.3 symmetric integrals = filtered non-symmetric ones; stored faces = symmetric ones -/

theorem sym_eq_filter_aux (active : List Bool) (idx : Nat) (k : Nat) (ps : List PlaneInfo) :
    (enumFrom k ps).filterMap (fun (kp : Nat × PlaneInfo) =>
        let f : Face := ⟨idx, kp.2.right, kp.2.shifted, kp.1⟩
        if kp.2.hasTet && kp.2.valid && !(symSkip idx active f) then some f else none) =
      ((enumFrom k ps).filterMap (fun (kp : Nat × PlaneInfo) =>
        if kp.2.hasTet && kp.2.valid then some (⟨idx, kp.2.right, kp.2.shifted, kp.1⟩ : Face) else none)).filter
        (fun f => !symSkip idx active f) := by
  induction ps generalizing k with
  | nil => simp [enumFrom]
  | cons p ps ih =>
    simp only [enumFrom, List.filterMap_cons, ih]
    by_cases h1 : (p.hasTet && p.valid) = true
    · by_cases h2 : symSkip idx active ⟨idx, p.right, p.shifted, k⟩ = true
      · simp [h1, h2]
      · simp [h1, h2]
    · simp [h1]

/-- T13.3 for one cell -/
theorem sym_eq_filter (active : List Bool) (c : CellInfo) :
    cellFacesSym active c = (cellFacesNonSym c).filter (fun f => !symSkip c.idx active f) :=
  sym_eq_filter_aux active c.idx 0 c.planes

theorem cellFacesNonSym_left (c : CellInfo) : ∀ f ∈ cellFacesNonSym c, f.left = c.idx := by
  intro f hf
  simp only [cellFacesNonSym, List.mem_filterMap] at hf
  obtain ⟨⟨k, p⟩, _, h⟩ := hf
  split at h
  · cases h; rfl
  · cases h

/-- T13.3 for the integrator (no hypothesis on `cellOf` needed: a face carries the `idx` of the
cell that produced it as `left`). -/
theorem integrator_sym_eq_filter (n : Nat) (cellOf : Nat → CellInfo) (active : List Bool) :
    integratorFacesSym n cellOf active =
      (integratorFacesNonSym n cellOf active).filter (fun f => !symSkip f.left active f) := by
  unfold integratorFacesSym integratorFacesNonSym
  rw [List.filter_flatten, List.map_map]
  congr 1
  apply List.map_congr_left
  intro i _
  simp only [Function.comp]
  split
  · rw [sym_eq_filter]
    apply List.filter_congr
    intro f hf
    rw [cellFacesNonSym_left _ f hf]
  · rfl

/-- a plane for which the symmetric rule and the storage rule can be compared -/
def PlaneOK (active : List Bool) (idx : Nat) (p : PlaneInfo) : Prop :=
  p.hasTet = true → p.valid = true → p.shifted = false →
    ∀ r, p.right = some r → r ≠ idx ∧ r < active.length

theorem keep_eq (active : List Bool) (idx k : Nat) (p : PlaneInfo) (h : PlaneOK active idx p) :
    (p.hasTet && shouldConstruct idx (some active) p) =
      (p.hasTet && p.valid && !(symSkip idx active ⟨idx, p.right, p.shifted, k⟩)) := by
  unfold PlaneOK at h
  unfold shouldConstruct symSkip maskedOut
  rcases p with ⟨right, shifted, valid, hasTet⟩
  cases hasTet <;> cases valid <;> cases shifted <;> cases right <;> simp at h ⊢
  rename_i r
  obtain ⟨hne, hlt⟩ := h
  simp only [List.getElem?_eq_getElem hlt, Option.getD_some]
  have e : decide (idx < r) = !decide (r < idx) := by
    by_cases h' : r < idx <;> simp [h'] <;> omega
  rw [e]

theorem stored_eq_sym_aux (active : List Bool) (idx : Nat) (k : Nat) (ps : List PlaneInfo)
    (h : ∀ p ∈ ps, PlaneOK active idx p) :
    (enumFrom k ps).filterMap (fun (kp : Nat × PlaneInfo) =>
        if kp.2.hasTet && shouldConstruct idx (some active) kp.2 then
          some (⟨idx, kp.2.right, kp.2.shifted, kp.1⟩ : Face) else none) =
    (enumFrom k ps).filterMap (fun (kp : Nat × PlaneInfo) =>
        let f : Face := ⟨idx, kp.2.right, kp.2.shifted, kp.1⟩
        if kp.2.hasTet && kp.2.valid && !(symSkip idx active f) then some f else none) := by
  induction ps generalizing k with
  | nil => simp [enumFrom]
  | cons p ps ih =>
    simp only [enumFrom, List.filterMap_cons]
    rw [ih (k + 1) (fun q hq => h q (by simp [hq])), keep_eq active idx k p (h p (by simp))]

/-- T13.3: what `from_convex_cell` stores under a mask equals what `compute_face_integrals_sym`
produces, provided every (valid, non-degenerate) unshifted plane with a right generator `r`
has `r ≠ idx` and `r` inside the mask. -/
theorem stored_eq_sym (active : List Bool) (c : CellInfo)
    (h : ∀ p ∈ c.planes, PlaneOK active c.idx p) :
    cellFaces (some active) c = cellFacesSym active c :=
  stored_eq_sym_aux active c.idx 0 c.planes h

theorem build_faces (u : Nat → Nat) (n : Nat) (cellOf : Nat → CellInfo) (mask : Option (List Bool)) :
    (build u n cellOf mask).faces =
      ((List.range n).map fun i => if isActive mask i then cellFaces mask (cellOf i) else []).flatten :=
  rfl

/-- T13.3: the stored face list of `build` with a mask equals `integratorFacesSym`. -/
theorem build_faces_eq_sym (u : Nat → Nat) (n : Nat) (cellOf : Nat → CellInfo) (active : List Bool)
    (h : ∀ i, i < n → active.getD i false = true →
      ∀ p ∈ (cellOf i).planes, PlaneOK active (cellOf i).idx p) :
    (build u n cellOf (some active)).faces = integratorFacesSym n cellOf active := by
  rw [build_faces]
  unfold integratorFacesSym
  congr 1
  apply List.map_congr_left
  intro i hi
  rw [show isActive (some active) i = active.getD i false from rfl]
  by_cases ha : active.getD i false = true
  · rw [if_pos ha, if_pos ha]
    exact stored_eq_sym active (cellOf i) (h i (List.mem_range.1 hi) ha)
  · rw [if_neg ha, if_neg ha]

/-! ## T03.2 the storage rule -/

/-- both sides active: the face between `i` and `j` is stored by `i` iff `i < j` -/
theorem storage_both_active (m : List Bool) (i j : Nat) (hj : j < m.length) (mj : m[j] = true) :
    shouldConstruct i (some m) ⟨some j, false, true, true⟩ = true ↔ i < j := by
  simp [shouldConstruct, maskedOut, List.getD_eq_getElem?_getD, List.getElem?_eq_getElem hj, mj]

theorem storage_no_mask (i j : Nat) :
    shouldConstruct i none ⟨some j, false, true, true⟩ = true ↔ i < j := by
  simp [shouldConstruct, maskedOut]

/-- both sides active, `i ≠ j`: exactly one of the two sides stores the face -/
theorem storage_exactly_one (m : List Bool) (i j : Nat) (hij : i ≠ j)
    (hi : i < m.length) (hj : j < m.length) (mi : m[i] = true) (mj : m[j] = true) :
    (shouldConstruct i (some m) ⟨some j, false, true, true⟩ ^^
      shouldConstruct j (some m) ⟨some i, false, true, true⟩) = true := by
  have a := storage_both_active m i j hj mj
  have b := storage_both_active m j i hi mi
  by_cases h : i < j
  · have h' : ¬ j < i := by omega
    rw [a.2 h, Bool.eq_false_iff.2 (fun e => h' (b.1 e))]; rfl
  · have h' : j < i := by omega
    rw [b.2 h', Bool.eq_false_iff.2 (fun e => h (a.1 e))]; rfl

theorem storage_exactly_one_no_mask (i j : Nat) (hij : i ≠ j) :
    (shouldConstruct i none ⟨some j, false, true, true⟩ ^^
      shouldConstruct j none ⟨some i, false, true, true⟩) = true := by
  have a := storage_no_mask i j
  have b := storage_no_mask j i
  by_cases h : i < j
  · have h' : ¬ j < i := by omega
    rw [a.2 h, Bool.eq_false_iff.2 (fun e => h' (b.1 e))]; rfl
  · have h' : j < i := by omega
    rw [b.2 h', Bool.eq_false_iff.2 (fun e => h (a.1 e))]; rfl

/-- the other side is inactive: the active side stores the face whatever the index order -/
theorem storage_active_inactive (m : List Bool) (i j : Nat) (hj : j < m.length) (mj : m[j] = false) :
    shouldConstruct i (some m) ⟨some j, false, true, true⟩ = true := by
  simp [shouldConstruct, maskedOut, List.getD_eq_getElem?_getD, List.getElem?_eq_getElem hj, mj]

/-- shifted (periodic) faces and wall faces are always stored -/
theorem storage_shifted_or_wall (i : Nat) (mask : Option (List Bool)) (p : PlaneInfo)
    (hv : p.valid = true) (h : p.shifted = true ∨ p.right = none) :
    shouldConstruct i mask p = true := by
  unfold shouldConstruct
  rcases p with ⟨right, shifted, valid, hasTet⟩
  simp only at hv h
  subst hv
  rcases h with rfl | rfl
  · cases right <;> rfl
  · rfl

theorem invalid_never (i : Nat) (mask : Option (List Bool)) (p : PlaneInfo) (hv : p.valid = false) :
    shouldConstruct i mask p = false := by
  simp [shouldConstruct, hv]

/-! ## T07 faces and cells of `build` versus the mask -/

theorem cellFaces_left (mask : Option (List Bool)) (c : CellInfo) :
    ∀ f ∈ cellFaces mask c, f.left = c.idx := by
  intro f hf
  simp only [cellFaces, List.mem_filterMap] at hf
  obtain ⟨⟨k, p⟩, _, h⟩ := hf
  split at h
  · cases h; rfl
  · cases h

/-- T07.2: no stored face has an inactive left generator -/
theorem no_inactive_left (u : Nat → Nat) (n : Nat) (cellOf : Nat → CellInfo)
    (mask : Option (List Bool)) (hidx : ∀ i, i < n → (cellOf i).idx = i) :
    ∀ f ∈ (build u n cellOf mask).faces, isActive mask f.left = true ∧ f.left < n := by
  intro f hf
  rw [build_faces, List.mem_flatten] at hf
  obtain ⟨l, hl, hfl⟩ := hf
  obtain ⟨i, hi, rfl⟩ := List.mem_map.1 hl
  have hi' : i < n := List.mem_range.1 hi
  by_cases ha : isActive mask i = true
  · rw [if_pos ha] at hfl
    rw [cellFaces_left mask _ f hfl, hidx i hi']
    exact ⟨ha, hi'⟩
  · rw [if_neg ha] at hfl
    cases hfl

theorem flatten_map_single (n i : Nat) (X : Nat → List Face) (Y : List Face)
    (h : ∀ j, j < n → (if j = i then Y else []) = X j) :
    ((List.range n).map X).flatten = if i < n then Y else [] := by
  induction n with
  | zero => simp
  | succ n ih =>
    rw [List.range_succ, List.map_append, List.flatten_append, ih (fun j hj => h j (by omega))]
    have hn := h n (by omega)
    simp only [List.map_cons, List.map_nil, List.flatten_cons, List.flatten_nil, List.append_nil]
    rw [← hn]
    by_cases h1 : i < n
    · have : n ≠ i := by omega
      simp [h1, this, Nat.lt_succ_of_lt h1]
    · by_cases h2 : n = i
      · subst h2; simp
      · have : ¬ i < n + 1 := by omega
        simp [h1, h2, this]

/-- T07.2: the faces of `build` with left generator `i` are exactly, in order, the faces the
cell of `i` stores if `i` is active, and none otherwise. -/
theorem faces_of_active (u : Nat → Nat) (n : Nat) (cellOf : Nat → CellInfo)
    (mask : Option (List Bool)) (hidx : ∀ i, i < n → (cellOf i).idx = i) (i : Nat) (hi : i < n) :
    (build u n cellOf mask).faces.filter (fun f => f.left == i) =
      if isActive mask i then cellFaces mask (cellOf i) else [] := by
  rw [build_faces, List.filter_flatten, List.map_map]
  rw [flatten_map_single n i _ (if isActive mask i then cellFaces mask (cellOf i) else [])]
  · simp [hi]
  · intro j hj
    simp only [Function.comp]
    by_cases ha : isActive mask j = true
    · rw [if_pos ha]
      by_cases hji : j = i
      · subst hji
        rw [if_pos rfl, if_pos ha]
        symm
        rw [List.filter_eq_self]
        intro f hf
        simp [cellFaces_left mask _ f hf, hidx j hj]
      · rw [if_neg hji]
        symm
        rw [List.filter_eq_nil_iff]
        intro f hf
        simp [cellFaces_left mask _ f hf, hidx j hj, hji]
    · rw [if_neg ha]
      by_cases hji : j = i
      · subst hji; simp [ha]
      · simp [hji]

/-- T07.1: the record at position `i` of `build`: for an active `i` it carries the `idx` of
`cellOf i` and is marked constructed, whatever the rest of the mask; for an inactive `i` it is
`(u i, false)`. -/
theorem cell_indep_of_mask (u : Nat → Nat) (n : Nat) (cellOf : Nat → CellInfo)
    (mask : Option (List Bool)) (i : Nat) (hi : i < n) :
    ∃ vc, (build u n cellOf mask).cells[i]? = some vc ∧
      (isActive mask i = true → vc.idx = (cellOf i).idx ∧ vc.constructed = true) ∧
      (isActive mask i = false → vc.idx = u i ∧ vc.constructed = false) := by
  unfold build
  simp only [finalize_cells_getElem?, List.getElem?_map, List.getElem?_range hi, Option.map_some]
  refine ⟨_, rfl, ?_, ?_⟩
  · intro ha; simp [ha]
  · intro ha; simp [ha]

theorem build_cells_length (u : Nat → Nat) (n : Nat) (cellOf : Nat → CellInfo)
    (mask : Option (List Bool)) : (build u n cellOf mask).cells.length = n := by
  unfold build
  simp [cells_length]

/-! ## T14.4 `zipData` -/

theorem zipData_aux {D} (active : List Bool) (k n : Nat) (data : List D) :
    ((List.range' k n).zip data).filterMap
        (fun (p : Nat × D) => if active.getD p.1 false then some (p.1, p.2) else none) =
      (List.range' k n).filterMap
        (fun i => if active.getD i false then data[i - k]?.map (fun d => (i, d)) else none) := by
  induction n generalizing k data with
  | zero => simp
  | succ n ih =>
    rw [List.range'_succ]
    cases data with
    | nil =>
      simp only [List.zip_nil_right, List.filterMap_nil]
      symm
      rw [List.filterMap_eq_nil_iff]
      intro i _
      split <;> simp
    | cons d ds =>
      simp only [List.zip_cons_cons, List.filterMap_cons, ih (k + 1) ds, Nat.sub_self,
        List.getElem?_cons_zero, Option.map_some]
      have : (List.range' (k + 1) n).filterMap
            (fun i => if active.getD i false then ds[i - (k + 1)]?.map (fun d => (i, d)) else none) =
          (List.range' (k + 1) n).filterMap
            (fun i => if active.getD i false then (d :: ds)[i - k]?.map (fun d => (i, d)) else none) := by
        apply List.filterMap_congr
        intro i hi
        have : k + 1 ≤ i := (List.mem_range'_1.1 hi).1
        have e : i - k = (i - (k + 1)) + 1 := by omega
        rw [e, List.getElem?_cons_succ]
      rw [this]

/-- T14.4: `zipData` pairs every active index `i < n` (increasing) with `data[i]`.  Holds without
any length hypothesis (indices beyond `data` are dropped, as `zip` does). -/
theorem zipData_spec {D} (n : Nat) (active : List Bool) (data : List D) :
    zipData n active data =
      (List.range n).filterMap
        (fun i => if active.getD i false then data[i]?.map (fun d => (i, d)) else none) := by
  have := zipData_aux active 0 n data
  simp only [Nat.sub_zero, ← List.range_eq_range'] at this
  exact this

theorem zipData_mem {D} (n : Nat) (active : List Bool) (data : List D) (i : Nat) (d : D) :
    (i, d) ∈ zipData n active data ↔ i < n ∧ active.getD i false = true ∧ data[i]? = some d := by
  rw [zipData_spec, List.mem_filterMap]
  constructor
  · rintro ⟨j, hj, h⟩
    split at h
    · rename_i ha
      cases hd : data[j]? with
      | none => simp [hd] at h
      | some d' =>
        simp only [hd, Option.map_some, Option.some.injEq, Prod.mk.injEq] at h
        obtain ⟨rfl, rfl⟩ := h
        exact ⟨List.mem_range.1 hj, ha, hd⟩
    · cases h
  · rintro ⟨hi, ha, hd⟩
    exact ⟨i, List.mem_range.2 hi, by rw [if_pos ha, hd]; rfl⟩

/-- with enough data, the first components are exactly the active indices, increasing -/
theorem zipData_fst {D} (n : Nat) (active : List Bool) (data : List D) (h : n ≤ data.length) :
    (zipData n active data).map Prod.fst = (List.range n).filter (fun i => active.getD i false) := by
  rw [zipData_spec, List.map_filterMap, ← List.filterMap_eq_filter]
  apply List.filterMap_congr
  intro i hi
  have : i < data.length := Nat.lt_of_lt_of_le (List.mem_range.1 hi) h
  simp only [Option.guard]
  split <;> simp [*]

theorem count_active_aux (active : List Bool) (k : Nat) :
    ((List.range' k active.length).filter (fun i => active.getD (i - k) false)).length =
      active.count true := by
  induction active generalizing k with
  | nil => simp
  | cons b bs ih =>
    rw [List.length_cons, List.range'_succ, List.filter_cons]
    have : (List.range' (k + 1) bs.length).filter (fun i => (b :: bs).getD (i - k) false) =
        (List.range' (k + 1) bs.length).filter (fun i => bs.getD (i - (k + 1)) false) := by
      apply List.filter_congr
      intro i hi
      have : k + 1 ≤ i := (List.mem_range'_1.1 hi).1
      have e : i - k = (i - (k + 1)) + 1 := by omega
      rw [e]; rfl
    rw [this]
    have ih' := ih (k + 1)
    simp only [List.getD_eq_getElem?_getD] at ih' ⊢
    cases b <;> simp [ih']

/-- T14.4: as many pairs as there are active cells -/
theorem zipData_length {D} (n : Nat) (active : List Bool) (data : List D)
    (hd : data.length = n) (ha : active.length = n) :
    (zipData n active data).length = active.count true := by
  have h1 := congrArg List.length (zipData_fst n active data (Nat.le_of_eq hd.symm))
  rw [List.length_map] at h1
  rw [h1]
  have := count_active_aux active 0
  simp only [Nat.sub_zero, ← List.range_eq_range', ha] at this
  exact this

/-! ## T03.3 (optional) pairwise exchange over the stored faces is conservative -/

/-- what face `f` contributes to cell `c` when every stored face adds `φ f` to its left cell and
subtracts it from its right cell (only if it is linked there, i.e. unshifted with a right generator) -/
def contrib (φ : Face → Int) (f : Face) (c : Nat) : Int :=
  (if f.left = c then φ f else 0) -
    (match f.right, f.shifted with
      | some r, false => if r = c then φ f else 0
      | _, _ => 0)

def netFlux (φ : Face → Int) (faces : List Face) (c : Nat) : Int :=
  (faces.map fun f => contrib φ f c).sum

theorem sum_range_add (n : Nat) (a b : Nat → Int) :
    ((List.range n).map fun c => a c + b c).sum =
      ((List.range n).map a).sum + ((List.range n).map b).sum := by
  induction n with
  | zero => simp
  | succ n ih => simp only [List.range_succ, List.map_append, List.sum_append, ih]; simp; omega

theorem sum_range_ite (n k : Nat) (x : Int) :
    ((List.range n).map fun c => if k = c then x else 0).sum = if k < n then x else 0 := by
  induction n with
  | zero => simp
  | succ n ih =>
    simp only [List.range_succ, List.map_append, List.sum_append, ih]
    by_cases h1 : k < n
    · have : k ≠ n := by omega
      simp [h1, this, Nat.lt_succ_of_lt h1]
    · by_cases h2 : k = n
      · subst h2; simp
      · have : ¬ k < n + 1 := by omega
        simp [h1, h2, this]

theorem sum_range_sub (n : Nat) (a b : Nat → Int) :
    ((List.range n).map fun c => a c - b c).sum =
      ((List.range n).map a).sum - ((List.range n).map b).sum := by
  induction n with
  | zero => simp
  | succ n ih => simp only [List.range_succ, List.map_append, List.sum_append, ih]; simp; omega

theorem sum_contrib (φ : Face → Int) (n : Nat) (f : Face)
    (hl : f.left < n) (hr : ∀ r, f.right = some r → r < n) :
    ((List.range n).map (contrib φ f)).sum = if f.shifted || f.right.isNone then φ f else 0 := by
  unfold contrib
  rw [sum_range_sub, sum_range_ite, if_pos hl]
  rcases hR : f.right with _ | r <;> rcases hS : f.shifted with _ | _ <;> simp
  rw [sum_range_ite, if_pos (hr r hR)]
  omega

/-- T03.3: summed over all cells, the exchanges through interior (linked on both sides) faces
cancel; only wall and periodic faces remain. -/
theorem flux_cancels (φ : Face → Int) (n : Nat) (faces : List Face) (h : WF n faces) :
    ((List.range n).map (netFlux φ faces)).sum =
      ((faces.filter fun f => f.shifted || f.right.isNone).map φ).sum := by
  induction faces with
  | nil =>
    have : netFlux φ [] = fun _ => 0 := by funext c; simp [netFlux]
    rw [this]
    clear h this
    induction n with
    | zero => simp
    | succ n ih => simp [List.range_succ, List.sum_append] at ih ⊢
  | cons f fs ih =>
    have hf := h f (by simp)
    have := ih (fun g hg => h g (by simp [hg]))
    have e : netFlux φ (f :: fs) = fun c => contrib φ f c + netFlux φ fs c := by
      funext c; simp [netFlux]
    rw [e, sum_range_add, this, sum_contrib φ n f hf.1 hf.2, List.filter_cons]
    split <;> simp

/-! ## Concrete instances (non-vacuity, and a defect witness) -/

/-- three cells in a row -/
def rowCell : Nat → CellInfo
  | 0 => ⟨0, [⟨none, false, true, true⟩, ⟨some 1, false, true, true⟩]⟩
  | 1 => ⟨1, [⟨some 0, false, true, true⟩, ⟨some 2, false, true, true⟩]⟩
  | _ => ⟨2, [⟨some 1, false, true, true⟩, ⟨none, false, true, true⟩]⟩

/-- all cells constructed: neighbour lists are `[1]`, `[0,2]`, `[1]` -/
example :
    let v := build (fun _ => 0) 3 rowCell none
    v.cells.map (neighbourIds v) = [[1], [0, 2], [1]] := by decide

/-- defect witness (C12): only cell 0 constructed, unconstructed cells carry `idx = 0` as
`VoronoiCell::default()` does: the cell at position 1 reports itself as neighbour. -/
example :
    let v := build (fun _ => 0) 3 rowCell (some [true, false, false])
    v.cells.map (neighbourIds v) = [[1], [1], []] := by decide

/-- with `idx = position` for unconstructed cells the answer is the expected one -/
example :
    let v := build id 3 rowCell (some [true, false, false])
    v.cells.map (neighbourIds v) = [[1], [0], []] := by decide

end MVoro.TessBook

#print axioms MVoro.TessBook.connLists_eq
#print axioms MVoro.TessBook.conn_length
#print axioms MVoro.TessBook.offsets_prefix
#print axioms MVoro.TessBook.last_offset_count
#print axioms MVoro.TessBook.cells_getElem
#print axioms MVoro.TessBook.faceIndices_spec
#print axioms MVoro.TessBook.faceIndices_mem
#print axioms MVoro.TessBook.faceIndices_mem'
#print axioms MVoro.TessBook.neighbourIds_spec
#print axioms MVoro.TessBook.neighbourIds_props
#print axioms MVoro.TessBook.routes_equal
#print axioms MVoro.TessBook.sym_eq_filter
#print axioms MVoro.TessBook.integrator_sym_eq_filter
#print axioms MVoro.TessBook.stored_eq_sym
#print axioms MVoro.TessBook.build_faces_eq_sym
#print axioms MVoro.TessBook.storage_both_active
#print axioms MVoro.TessBook.storage_no_mask
#print axioms MVoro.TessBook.storage_exactly_one
#print axioms MVoro.TessBook.storage_exactly_one_no_mask
#print axioms MVoro.TessBook.storage_active_inactive
#print axioms MVoro.TessBook.storage_shifted_or_wall
#print axioms MVoro.TessBook.invalid_never
#print axioms MVoro.TessBook.no_inactive_left
#print axioms MVoro.TessBook.faces_of_active
#print axioms MVoro.TessBook.cell_indep_of_mask
#print axioms MVoro.TessBook.zipData_spec
#print axioms MVoro.TessBook.zipData_mem
#print axioms MVoro.TessBook.zipData_fst
#print axioms MVoro.TessBook.zipData_length
#print axioms MVoro.TessBook.flux_cancels
