/-
Combinatorics of `compute_boundary` / `SimpleCycle::try_extend`
(src/simple_cycle.rs, src/voronoi/convex_cell.rs:358-441).

A. `step`, `step_extend`, `step_closed`, `init_inv`: one successful `try_extend` turns "cycle =
   boundary of D" into "cycle = boundary of t :: D" (invariant `Inv` = `CInv` + injectivity).
   `step_del_closing_false`: the closing triangle of a full sphere must be excluded.
B. `greedy_inv`, `bdry_perm`, `bdry_rot`, `bdry_rotPerm`, `greedy_canonical`: the result of a
   successful greedy run is `bdry R`, independent of storage order and rotations.
C. `tryRot_refines`, `tryExtend_refines`, `tryExtend_get`, `resetWalk_get`, `init_get`: the array
   model implements the abstract successor-function operations.
D. `closed_clip`, `bdry_cycles_of_inv`, `closed_preserved`, `greedy_closed`: the clipped triple
   list is closed again.
E. `greedy_of_raw`: the side condition of A/B (no closing step) follows from "no non-empty part of
   R is closed", because the cycle is a single cycle (`Conn`).
F. `computeBoundary_greedy`, `computeBoundary_bdry`, `computeBoundary_canonical`,
   `pairs_closedWalk_perm`: the executable `Clip.computeBoundary` performs such a run.
-/
import MVoro.Model.Clip
import Mathlib.Data.List.Nodup
import Mathlib.Data.List.Pairwise
import Mathlib.Data.List.Flatten
import Mathlib.Data.List.Dedup
import Batteries.Data.List.Perm
import Mathlib.Logic.Function.Iterate

namespace MVoro.CycleBoundary

/-! ## Definitions -/

def edgesOf (T : List Dual) : List (Nat × Nat) := T.flatMap Dual.edges

/-- closed oriented surface: every directed edge occurs once and its reverse occurs -/
def Closed (T : List Dual) : Prop :=
  (edgesOf T).Nodup ∧ ∀ e ∈ edgesOf T, e.swap ∈ edgesOf T

/-- boundary edges of a sub-collection -/
def bdry (R : List Dual) : List (Nat × Nat) :=
  (edgesOf R).filter (fun e => decide (e.swap ∉ edgesOf R))

/-- abstract invariant: the successor function `succ` (succ x = x means x not on the cycle)
has exactly the boundary of D as its edges -/
def CInv (succ : Nat → Nat) (D : List Dual) : Prop :=
  ∀ x y, (succ x = y ∧ x ≠ y) ↔ (x, y) ∈ bdry D

/-- pointwise update of a successor function -/
def upd (f : Nat → Nat) (i v : Nat) : Nat → Nat := fun x => if x = i then v else f x

/-- successor function of a single triangle `a → b → c → a` (abstract `init`) -/
def triSucc (a b c : Nat) : Nat → Nat := upd (upd (upd id a b) b c) c a

/-- guard of case 1 of `try_extend` for the rotation `(ti,tj,tk)` -/
def Cond1 (succ : Nat → Nat) (ti tj tk : Nat) : Prop :=
  succ ti = ti ∧ succ tj ≠ tj ∧ succ tk ≠ tk ∧ succ tk = tj

/-- guard of case 2 of `try_extend` for the rotation `(ti,tj,tk)` -/
def Cond2 (succ : Nat → Nat) (ti tj tk : Nat) : Prop :=
  succ ti ≠ ti ∧ succ tj ≠ tj ∧ succ tk ≠ tk ∧ succ tk = tj ∧ succ tj = ti

instance (succ : Nat → Nat) (ti tj tk : Nat) : Decidable (Cond1 succ ti tj tk) := by
  unfold Cond1; infer_instance
instance (succ : Nat → Nat) (ti tj tk : Nat) : Decidable (Cond2 succ ti tj tk) := by
  unfold Cond2; infer_instance

/-- effect of case 1: insert `ti` between `tk` and `tj` -/
def ins (succ : Nat → Nat) (ti tj tk : Nat) : Nat → Nat := upd (upd succ tk ti) ti tj

/-- effect of case 2: remove `tj`, `tk → ti` -/
def del (succ : Nat → Nat) (ti tj tk : Nat) : Nat → Nat := upd (upd succ tk ti) tj tj

/-- abstract version of `Cycle.tryRot` on a successor function -/
def aTryRot (succ : Nat → Nat) (ti tj tk : Nat) : Option (Nat → Nat) :=
  if Cond1 succ ti tj tk then some (ins succ ti tj tk)
  else if Cond2 succ ti tj tk then some (del succ ti tj tk)
  else none

/-- abstract version of `Cycle.tryExtend`: the three rotations in order -/
def aTryExtend (succ : Nat → Nat) (t : Dual) : Option (Nat → Nat) :=
  match aTryRot succ t.a t.b t.c with
  | some r => some r
  | none =>
    match aTryRot succ t.b t.c t.a with
    | some r => some r
    | none => aTryRot succ t.c t.a t.b

/-- `t'` is one of the three rotations of `t` -/
def IsRot (t' t : Dual) : Prop := t' = t ∨ t' = t.rot ∨ t' = t.rot.rot

/-! ## Basic facts -/

theorem mem_edges {d : Dual} {e : Nat × Nat} :
    e ∈ d.edges ↔ e = (d.a, d.b) ∨ e = (d.b, d.c) ∨ e = (d.c, d.a) := by
  simp [Dual.edges]

theorem mem_edgesOf {T : List Dual} {e : Nat × Nat} :
    e ∈ edgesOf T ↔ ∃ d ∈ T, e ∈ d.edges := by
  simp [edgesOf, List.mem_flatMap]

theorem edgesOf_cons (t : Dual) (D : List Dual) : edgesOf (t :: D) = t.edges ++ edgesOf D := by
  simp [edgesOf]

theorem mem_bdry {R : List Dual} {e : Nat × Nat} :
    e ∈ bdry R ↔ e ∈ edgesOf R ∧ e.swap ∉ edgesOf R := by
  simp [bdry, List.mem_filter]

theorem mem_edges_rot {d : Dual} {e : Nat × Nat} : e ∈ d.rot.edges ↔ e ∈ d.edges := by
  simp only [mem_edges, Dual.rot]; tauto

theorem mem_edges_isRot {t' t : Dual} (h : IsRot t' t) {e : Nat × Nat} :
    e ∈ t'.edges ↔ e ∈ t.edges := by
  rcases h with rfl | rfl | rfl <;> simp [mem_edges_rot]


/-! ## A. The abstract step (T18.2) -/

theorem disjoint_of_nodup_cons {t : Dual} {D : List Dual} (hN : (edgesOf (t :: D)).Nodup) :
    ∀ e, e ∈ t.edges → e ∉ edgesOf D := by
  rw [edgesOf_cons] at hN
  intro e h1 h2
  exact (List.disjoint_of_nodup_append hN) h1 h2

theorem mem_bdry_cons {t : Dual} {D : List Dual} {e : Nat × Nat} :
    e ∈ bdry (t :: D) ↔
      (e ∈ t.edges ∨ e ∈ edgesOf D) ∧ ¬ (e.swap ∈ t.edges ∨ e.swap ∈ edgesOf D) := by
  simp [mem_bdry, edgesOf_cons]

/-- case 1 (insert): only `Nodup (edgesOf (t :: D))` is needed -/
theorem step_ins {succ : Nat → Nat} {t : Dual} {D : List Dual} {ti tj tk : Nat}
    (hN : (edgesOf (t :: D)).Nodup) (hI : CInv succ D) (hinj : Function.Injective succ)
    (ht : ∀ e, e ∈ t.edges ↔ e = (ti, tj) ∨ e = (tj, tk) ∨ e = (tk, ti))
    (hc : Cond1 succ ti tj tk) : CInv (ins succ ti tj tk) (t :: D) := by
  have hd := disjoint_of_nodup_cons hN
  obtain ⟨h1, h2, h3, h4⟩ := hc
  have hb : ∀ x y, (x, y) ∈ bdry D ↔ (x, y) ∈ edgesOf D ∧ (y, x) ∉ edgesOf D := by
    intro x y; exact mem_bdry
  have e1 := hd (ti, tj) ((ht _).2 (Or.inl rfl))
  have e2 := hd (tj, tk) ((ht _).2 (Or.inr (Or.inl rfl)))
  have e3 := hd (tk, ti) ((ht _).2 (Or.inr (Or.inr rfl)))
  have i1 : ∀ z, succ z = ti → z = ti := fun z hz => hinj (hz.trans h1.symm)
  unfold CInv at hI
  intro x y
  rw [mem_bdry_cons]
  simp only [ht, Prod.swap, Prod.mk.injEq, ins, upd]
  grind

theorem inj_ins {succ : Nat → Nat} {ti tj tk : Nat} (hinj : Function.Injective succ)
    (hc : Cond1 succ ti tj tk) : Function.Injective (ins succ ti tj tk) := by
  obtain ⟨h1, h2, h3, h4⟩ := hc
  intro x y
  have := @hinj x y
  have := @hinj x ti
  have := @hinj x tk
  have := @hinj ti y
  have := @hinj tk y
  simp only [ins, upd]
  grind

/-- case 2 (delete) -/
theorem step_del {succ : Nat → Nat} {t : Dual} {D : List Dual} {ti tj tk : Nat}
    (hN : (edgesOf (t :: D)).Nodup) (hI : CInv succ D) (hinj : Function.Injective succ)
    (ht : ∀ e, e ∈ t.edges ↔ e = (ti, tj) ∨ e = (tj, tk) ∨ e = (tk, ti))
    (hc : Cond2 succ ti tj tk) (hopen : succ ti ≠ tk) : CInv (del succ ti tj tk) (t :: D) := by
  have hd := disjoint_of_nodup_cons hN
  obtain ⟨h1, h2, h3, h4, h5⟩ := hc
  have hb : ∀ x y, (x, y) ∈ bdry D ↔ (x, y) ∈ edgesOf D ∧ (y, x) ∉ edgesOf D := by
    intro x y; exact mem_bdry
  have e1 := hd (ti, tj) ((ht _).2 (Or.inl rfl))
  have e2 := hd (tj, tk) ((ht _).2 (Or.inr (Or.inl rfl)))
  have e3 := hd (tk, ti) ((ht _).2 (Or.inr (Or.inr rfl)))
  have i1 : ∀ z, succ z = ti → z = tj := fun z hz => hinj (hz.trans h5.symm)
  have i2 : ∀ z, succ z = tj → z = tk := fun z hz => hinj (hz.trans h4.symm)
  unfold CInv at hI
  intro x y
  rw [mem_bdry_cons]
  simp only [ht, Prod.swap, Prod.mk.injEq, del, upd]
  grind

theorem inj_del {succ : Nat → Nat} {ti tj tk : Nat} (hinj : Function.Injective succ)
    (hc : Cond2 succ ti tj tk) : Function.Injective (del succ ti tj tk) := by
  obtain ⟨h1, h2, h3, h4, h5⟩ := hc
  intro x y
  have := @hinj x y
  have := @hinj x tj
  have := @hinj x tk
  have := @hinj tj y
  have := @hinj tk y
  simp only [del, upd]
  grind

/-- The degenerate closing situation of case 2 (`tk → tj → ti → tk` is a triangle of the cycle, so
`t` closes the surface) really has to be excluded: the code then leaves the 2-cycle `tk ⇄ ti`,
while the boundary of `t :: D` has no edge at `tk`. -/
theorem step_del_closing_false {succ : Nat → Nat} {t : Dual} {D : List Dual} {ti tj tk : Nat}
    (hI : CInv succ D) (hc : Cond2 succ ti tj tk) (hclose : succ ti = tk) :
    ¬ CInv (del succ ti tj tk) (t :: D) := by
  obtain ⟨h1, h2, h3, h4, h5⟩ := hc
  intro hI'
  have hik : ti ≠ tk := by grind
  have hjk : tk ≠ tj := by grind
  have a1 : (tk, ti) ∈ bdry (t :: D) := (hI' tk ti).1 (by simp only [del, upd]; grind)
  have a2 : (ti, tk) ∈ bdry D := (hI ti tk).1 ⟨hclose, hik⟩
  rw [mem_bdry_cons] at a1
  rw [mem_bdry] at a2
  exact a1.2 (Or.inr a2.1)

/-- the invariant carried along the greedy reconstruction: the cycle edges are the boundary of
`D`, and the successor function is injective (no vertex has two incoming cycle edges) -/
def Inv (succ : Nat → Nat) (D : List Dual) : Prop := CInv succ D ∧ Function.Injective succ

/-- `t` does not close the surface: one of its edges has no partner in `D` -/
def Open (t : Dual) (D : List Dual) : Prop := ∃ e ∈ t.edges, e.swap ∉ edgesOf D

theorem edges_eq_of_isRot {t' t : Dual} (h : IsRot t' t) :
    ∀ e, e ∈ t.edges ↔ e = (t'.a, t'.b) ∨ e = (t'.b, t'.c) ∨ e = (t'.c, t'.a) := by
  intro e; rw [← mem_edges_isRot h, mem_edges]

/-- **T18.2 (abstract step).**  If the edges of `t :: D` are pairwise distinct, the cycle `succ`
is the boundary of `D`, `t` does not close the surface, and one rotation `t'` of `t` passes
`tryRot`, then the new cycle is the boundary of `t :: D`. -/
theorem step {succ succ' : Nat → Nat} {t t' : Dual} {D : List Dual}
    (hN : (edgesOf (t :: D)).Nodup) (hI : Inv succ D) (hr : IsRot t' t)
    (hopen : Open t D) (h : aTryRot succ t'.a t'.b t'.c = some succ') : Inv succ' (t :: D) := by
  have ht := edges_eq_of_isRot hr
  unfold aTryRot at h
  split at h
  next hc =>
    cases h
    exact ⟨step_ins hN hI.1 hI.2 ht hc, inj_ins hI.2 hc⟩
  next hc1 =>
    split at h
    next hc =>
      cases h
      refine ⟨step_del hN hI.1 hI.2 ht hc ?_, inj_del hI.2 hc⟩
      intro hclose
      obtain ⟨h1, h2, h3, h4, h5⟩ := hc
      obtain ⟨e, he, hne⟩ := hopen
      have b1 := ((hI.1 t'.a t'.c).1 ⟨hclose, by grind⟩)
      have b2 := ((hI.1 t'.c t'.b).1 ⟨h4, by grind⟩)
      have b3 := ((hI.1 t'.b t'.a).1 ⟨h5, by grind⟩)
      rw [mem_bdry] at b1 b2 b3
      rcases (ht e).1 he with rfl | rfl | rfl
      · exact hne b3.1
      · exact hne b2.1
      · exact hne b1.1
    next => cases h

/-- the same for the three-rotation search `tryExtend` -/
theorem step_extend {succ succ' : Nat → Nat} {t : Dual} {D : List Dual}
    (hN : (edgesOf (t :: D)).Nodup) (hI : Inv succ D)
    (hopen : Open t D) (h : aTryExtend succ t = some succ') : Inv succ' (t :: D) := by
  unfold aTryExtend at h
  split at h
  next r h1 => cases h; exact step hN hI (Or.inl rfl) hopen h1
  next =>
    split at h
    next r h2 => cases h; exact step (t' := t.rot) hN hI (Or.inr (Or.inl rfl)) hopen h2
    next => exact step (t' := t.rot.rot) hN hI (Or.inr (Or.inr rfl)) hopen h

theorem nodup_edgesOf_of_subset {T R : List Dual} (hT : (edgesOf T).Nodup) (hR : R.Nodup)
    (hsub : R ⊆ T) : (edgesOf R).Nodup := by
  unfold edgesOf at *
  rw [List.nodup_flatMap] at hT ⊢
  refine ⟨fun x hx => hT.1 x (hsub hx), ?_⟩
  have hsym : Std.Symm (Function.onFun List.Disjoint Dual.edges) :=
    ⟨fun a b h x hb ha => h ha hb⟩
  have := hT.2.forall
  exact hR.imp_of_mem (fun {a b} ha hb hab => this (hsub ha) (hsub hb) hab)

/-- **T18.2 in the ambient closed surface.**  `T` closed (only `Nodup` of its edges is used),
`D ⊆ T` without repetition, `t ∈ T \ D`. -/
theorem step_closed {T D : List Dual} {t t' : Dual} {succ succ' : Nat → Nat}
    (hT : Closed T) (hD : D ⊆ T) (hDn : D.Nodup) (htT : t ∈ T) (htD : t ∉ D)
    (hI : Inv succ D) (hr : IsRot t' t) (hopen : Open t D)
    (h : aTryRot succ t'.a t'.b t'.c = some succ') : Inv succ' (t :: D) :=
  step (nodup_edgesOf_of_subset hT.1 (List.nodup_cons.2 ⟨htD, hDn⟩)
    (List.cons_subset.2 ⟨htT, hD⟩)) hI hr hopen h

/-- the initial step: after `init` on a triangle with three distinct indices the invariant holds
for `D = [t]` -/
theorem init_inv {t : Dual} (hab : t.a ≠ t.b) (hbc : t.b ≠ t.c) (hca : t.c ≠ t.a) :
    Inv (triSucc t.a t.b t.c) [t] := by
  constructor
  · intro x y
    rw [mem_bdry]
    simp only [edgesOf, List.flatMap_cons, List.flatMap_nil, List.append_nil, mem_edges,
      Prod.swap, Prod.mk.injEq, triSucc, upd, id]
    grind
  · intro x y
    simp only [triSucc, upd, id]
    grind

theorem triSucc_rot {a b c : Nat} (hab : a ≠ b) (_hbc : b ≠ c) (hca : c ≠ a) :
    triSucc b c a = triSucc a b c := by
  funext x; simp only [triSucc, upd, id]; grind

/-! ## B. The result is canonical (T18.3) -/

/-- One successful run of the greedy reconstruction (`compute_boundary`), abstractly: start from
some rotation of one triangle, then repeatedly add a not yet used triangle one of whose rotations
passes `tryRot`.  The list is the set of triangles consumed so far (latest first).  No order of
search is imposed, so every order in which the code may consume the triangles is covered. -/
inductive Greedy : List Dual → (Nat → Nat) → Prop
  | init {t t' : Dual} (hr : IsRot t' t) (hab : t.a ≠ t.b) (hbc : t.b ≠ t.c) (hca : t.c ≠ t.a) :
      Greedy [t] (triSucc t'.a t'.b t'.c)
  | step {D : List Dual} {succ succ' : Nat → Nat} {t t' : Dual} (hD : Greedy D succ)
      (hr : IsRot t' t) (hopen : Open t D) (h : aTryRot succ t'.a t'.b t'.c = some succ') :
      Greedy (t :: D) succ'

theorem triSucc_isRot {t t' : Dual} (hr : IsRot t' t) (hab : t.a ≠ t.b) (hbc : t.b ≠ t.c)
    (hca : t.c ≠ t.a) : triSucc t'.a t'.b t'.c = triSucc t.a t.b t.c := by
  rcases hr with rfl | rfl | rfl
  · rfl
  · exact triSucc_rot hab hbc hca
  · funext x; simp only [triSucc, upd, id, Dual.rot]; grind

/-- **T18.3 (first half).**  Whenever the greedy procedure succeeds on `R` (edges of `R` pairwise
distinct, e.g. `R` a repetition-free part of a closed surface), the final cycle has edge set
exactly `bdry R` and is injective. -/
theorem greedy_inv {R : List Dual} {succ : Nat → Nat} (h : Greedy R succ)
    (hN : (edgesOf R).Nodup) : Inv succ R := by
  induction h with
  | init hr hab hbc hca => rw [triSucc_isRot hr hab hbc hca]; exact init_inv hab hbc hca
  | step hD hr hopen h ih =>
    refine step hN (ih ?_) hr hopen h
    rw [edgesOf_cons] at hN
    exact (List.nodup_append.1 hN).2.1

/-- membership in `bdry` depends only on the *set* of directed edges -/
theorem bdry_congr {R R' : List Dual} (h : ∀ e, e ∈ edgesOf R ↔ e ∈ edgesOf R') :
    ∀ e, e ∈ bdry R ↔ e ∈ bdry R' := by
  intro e; simp only [mem_bdry, h]

/-- `bdry` is invariant under permutation of the removed set -/
theorem bdry_perm {R R' : List Dual} (h : R.Perm R') : ∀ e, e ∈ bdry R ↔ e ∈ bdry R' := by
  apply bdry_congr
  intro e; simp only [mem_edgesOf]
  constructor
  · rintro ⟨d, hd, he⟩; exact ⟨d, h.mem_iff.1 hd, he⟩
  · rintro ⟨d, hd, he⟩; exact ⟨d, h.mem_iff.2 hd, he⟩

/-- `bdry` is invariant under rotating one stored triple -/
theorem bdry_rot (R₁ R₂ : List Dual) (d : Dual) :
    ∀ e, e ∈ bdry (R₁ ++ d :: R₂) ↔ e ∈ bdry (R₁ ++ d.rot :: R₂) := by
  apply bdry_congr
  intro e
  simp only [edgesOf, List.flatMap_append, List.flatMap_cons, List.mem_append, mem_edges_rot]

/-- `R'` is `R` up to order and up to rotation of each triple -/
def RotPerm (R R' : List Dual) : Prop := ∃ R'', R.Perm R'' ∧ List.Forall₂ IsRot R' R''

theorem edgesOf_forall₂ {R' R'' : List Dual} (h : List.Forall₂ IsRot R' R'') :
    ∀ e, e ∈ edgesOf R' ↔ e ∈ edgesOf R'' := by
  induction h with
  | nil => intro e; rfl
  | cons hr _ ih => intro e; simp only [edgesOf_cons, List.mem_append, mem_edges_isRot hr, ih]

theorem bdry_rotPerm {R R' : List Dual} (h : RotPerm R R') : ∀ e, e ∈ bdry R ↔ e ∈ bdry R' := by
  obtain ⟨R'', hp, hf⟩ := h
  intro e
  rw [bdry_perm hp e]
  exact (bdry_congr (edgesOf_forall₂ hf) e).symm

/-- a successor function is determined by its set of proper edges -/
theorem succ_ext {s₁ s₂ : Nat → Nat}
    (h : ∀ x y, (s₁ x = y ∧ x ≠ y) ↔ (s₂ x = y ∧ x ≠ y)) : s₁ = s₂ := by
  funext x
  by_cases h1 : s₁ x = x
  · by_cases h2 : s₂ x = x
    · rw [h1, h2]
    · have := (h x (s₂ x)).2 ⟨rfl, fun e => h2 e.symm⟩
      exact this.1
  · have := (h x (s₁ x)).1 ⟨rfl, fun e => h1 e.symm⟩
    exact this.1.symm

/-- **T18.3 (canonical result).**  Two successful runs on inputs with the same set of directed
edges produce the same cycle. -/
theorem greedy_canonical_of_edges {R₁ R₂ : List Dual} {s₁ s₂ : Nat → Nat}
    (h₁ : Greedy R₁ s₁) (h₂ : Greedy R₂ s₂) (hN₁ : (edgesOf R₁).Nodup) (hN₂ : (edgesOf R₂).Nodup)
    (he : ∀ e, e ∈ edgesOf R₁ ↔ e ∈ edgesOf R₂) :
    ∀ x y, (s₁ x = y ∧ x ≠ y) ↔ (s₂ x = y ∧ x ≠ y) := by
  intro x y
  rw [(greedy_inv h₁ hN₁).1 x y, (greedy_inv h₂ hN₂).1 x y]
  exact bdry_congr he _

/-- **T18.3 (canonical result).**  Two successful runs of the greedy reconstruction on the same
removed set, stored in any two orders and with any rotation of each triple, produce the same
cycle: same edges, hence the same successor function. -/
theorem greedy_canonical {R₁ R₂ : List Dual} {s₁ s₂ : Nat → Nat}
    (h₁ : Greedy R₁ s₁) (h₂ : Greedy R₂ s₂) (hN₁ : (edgesOf R₁).Nodup) (hN₂ : (edgesOf R₂).Nodup)
    (hrp : RotPerm R₁ R₂) :
    (∀ x y, (s₁ x = y ∧ x ≠ y) ↔ (s₂ x = y ∧ x ≠ y)) ∧ s₁ = s₂ := by
  have : ∀ x y, (s₁ x = y ∧ x ≠ y) ↔ (s₂ x = y ∧ x ≠ y) := by
    intro x y
    rw [(greedy_inv h₁ hN₁).1 x y, (greedy_inv h₂ hN₂).1 x y]
    exact bdry_rotPerm hrp _
  exact ⟨this, succ_ext this⟩

/-! ## D. Closedness is preserved by a clip (T18.4) -/

/-- the new triple created for the boundary edge `e = (cur, next)` and the new plane `p` -/
def newTri (p : Nat) (e : Nat × Nat) : Dual := ⟨e.1, e.2, p⟩

/-- dual triples after the clip: kept triples, then one new triple per boundary edge -/
def clipDuals (T R : List Dual) (p : Nat) : List Dual :=
  T.filter (fun d => decide (∀ r ∈ R, d ≠ r)) ++ (bdry R).map (newTri p)

theorem edge_unique {T : List Dual} (hT : (edgesOf T).Nodup) {d d' : Dual} {e : Nat × Nat}
    (hd : d ∈ T) (hd' : d' ∈ T) (he : e ∈ d.edges) (he' : e ∈ d'.edges) : d = d' := by
  unfold edgesOf at hT
  rw [List.nodup_flatMap] at hT
  have hsym : Std.Symm (Function.onFun List.Disjoint Dual.edges) :=
    ⟨fun a b h x hb ha => h ha hb⟩
  by_contra hne
  exact hT.2.forall hd hd' hne he he'

theorem mem_edgesOf_kept {T R : List Dual} {e : Nat × Nat} :
    e ∈ edgesOf (T.filter (fun d => decide (∀ r ∈ R, d ≠ r))) ↔ ∃ d ∈ T, d ∉ R ∧ e ∈ d.edges := by
  have : ∀ d : Dual, (∀ r ∈ R, d ≠ r) ↔ d ∉ R := fun d =>
    ⟨fun h hd => h d hd rfl, fun h r hr e => h (e ▸ hr)⟩
  simp [mem_edgesOf, List.mem_filter, and_assoc, this]

theorem mem_edgesOf_new {R : List Dual} {p : Nat} {e : Nat × Nat} :
    e ∈ edgesOf ((bdry R).map (newTri p)) ↔
      ∃ x y, (x, y) ∈ bdry R ∧ (e = (x, y) ∨ e = (y, p) ∨ e = (p, x)) := by
  simp only [mem_edgesOf, List.mem_map, mem_edges, newTri]
  constructor
  · rintro ⟨d, ⟨⟨x, y⟩, hb, rfl⟩, he⟩; exact ⟨x, y, hb, he⟩
  · rintro ⟨x, y, hb, he⟩; exact ⟨_, ⟨(x, y), hb, rfl⟩, he⟩

theorem nodup_bdry {R : List Dual} (h : (edgesOf R).Nodup) : (bdry R).Nodup :=
  h.filter _

/-- **T18.4 (closedness preserved).**  `T` closed, `R ⊆ T` removed, `p` a fresh index, and the
boundary of `R` a disjoint union of cycles (`hout`, `hin`: at most one outgoing / incoming
boundary edge per vertex; `hbal`: a vertex has an outgoing boundary edge iff it has an incoming
one).  Then the clipped triple list is closed again. -/
theorem closed_clip {T R : List Dual} {p : Nat} (hT : Closed T) (hR : R ⊆ T) (hRn : R.Nodup)
    (hp : ∀ d ∈ T, d.a ≠ p ∧ d.b ≠ p ∧ d.c ≠ p)
    (hout : ∀ x y z, (x, y) ∈ bdry R → (x, z) ∈ bdry R → y = z)
    (hin : ∀ x y z, (y, x) ∈ bdry R → (z, x) ∈ bdry R → y = z)
    (hbal : ∀ x, (∃ y, (x, y) ∈ bdry R) ↔ (∃ z, (z, x) ∈ bdry R)) :
    Closed (clipDuals T R p) := by
  obtain ⟨hN, hS⟩ := hT
  -- edges of `T` avoid `p`
  have hpe : ∀ x y, (x, y) ∈ edgesOf T → x ≠ p ∧ y ≠ p := by
    intro x y h
    obtain ⟨d, hd, he⟩ := mem_edgesOf.1 h
    have := hp d hd
    rw [mem_edges] at he
    grind
  have hRT : ∀ e, e ∈ edgesOf R → e ∈ edgesOf T := by
    intro e h
    obtain ⟨d, hd, he⟩ := mem_edgesOf.1 h
    exact mem_edgesOf.2 ⟨d, hR hd, he⟩
  -- an edge of `T` is either kept or removed, not both
  have hsplit : ∀ e, e ∈ edgesOf T →
      (e ∈ edgesOf (T.filter (fun d => decide (∀ r ∈ R, d ≠ r))) ↔ e ∉ edgesOf R) := by
    intro e h
    rw [mem_edgesOf_kept]
    constructor
    · rintro ⟨d, hd, hdR, he⟩ h'
      obtain ⟨d', hd', he'⟩ := mem_edgesOf.1 h'
      exact hdR (edge_unique hN hd (hR hd') he he' ▸ hd')
    · intro h'
      obtain ⟨d, hd, he⟩ := mem_edgesOf.1 h
      exact ⟨d, hd, fun hdR => h' (mem_edgesOf.2 ⟨d, hdR, he⟩), he⟩
  have hKT : ∀ e, e ∈ edgesOf (T.filter (fun d => decide (∀ r ∈ R, d ≠ r))) → e ∈ edgesOf T := by
    intro e h
    obtain ⟨d, hd, _, he⟩ := mem_edgesOf_kept.1 h
    exact mem_edgesOf.2 ⟨d, hd, he⟩
  have hb : ∀ x y, (x, y) ∈ bdry R ↔ (x, y) ∈ edgesOf R ∧ (y, x) ∉ edgesOf R := by
    intro x y; exact mem_bdry
  have hNR : (edgesOf R).Nodup := nodup_edgesOf_of_subset hN hRn hR
  constructor
  · -- no directed edge occurs twice
    unfold clipDuals
    unfold edgesOf
    rw [List.flatMap_append, List.nodup_append]
    refine ⟨(List.filter_sublist.flatMap _).nodup hN, ?_, ?_⟩
    · rw [List.flatMap_map, List.nodup_flatMap]
      constructor
      · rintro ⟨x, y⟩ hxy
        have h1 := hpe x y (hRT _ (mem_bdry.1 hxy).1)
        simp [newTri, Dual.edges]
        grind
      · refine (nodup_bdry hNR).imp_of_mem ?_
        rintro ⟨x, y⟩ ⟨x', y'⟩ h1 h2 hne e he he'
        have p1 := hpe x y (hRT _ (mem_bdry.1 h1).1)
        have p2 := hpe x' y' (hRT _ (mem_bdry.1 h2).1)
        have := hout x y y'
        have := hin y x x'
        simp only [newTri, Dual.edges, List.mem_cons, List.not_mem_nil,
          or_false] at he he'
        grind
    · intro e he e' he' hee
      subst hee
      have he1 : e ∈ edgesOf (T.filter (fun d => decide (∀ r ∈ R, d ≠ r))) := he
      have he2 : e ∈ edgesOf ((bdry R).map (newTri p)) := he'
      obtain ⟨x, y, hxy, hcase⟩ := mem_edgesOf_new.1 he2
      have p1 := hpe x y (hRT _ (mem_bdry.1 hxy).1)
      have k1 := hKT e he1
      have k2 := (hsplit e k1).1 he1
      rcases hcase with rfl | rfl | rfl
      · exact k2 (mem_bdry.1 hxy).1
      · exact (hpe _ _ k1).2 rfl
      · exact (hpe _ _ k1).1 rfl
  · -- every edge has its reverse
    intro e he
    unfold clipDuals at he ⊢
    rw [edgesOf, List.flatMap_append, List.mem_append] at he ⊢
    change (e ∈ edgesOf _ ∨ e ∈ edgesOf _) at he
    change (e.swap ∈ edgesOf _ ∨ e.swap ∈ edgesOf _)
    rcases he with he | he
    · have k1 := hKT e he
      have k2 := (hsplit e k1).1 he
      have k3 := hS e k1
      by_cases h : e.swap ∈ edgesOf R
      · right
        rw [mem_edgesOf_new]
        refine ⟨e.2, e.1, mem_bdry.2 ⟨h, by simpa using k2⟩, Or.inl rfl⟩
      · left; exact (hsplit _ k3).2 h
    · obtain ⟨x, y, hxy, hcase⟩ := mem_edgesOf_new.1 he
      rcases hcase with rfl | rfl | rfl
      · left
        have := mem_bdry.1 hxy
        exact (hsplit _ (hS _ (hRT _ this.1))).2 this.2
      · right
        obtain ⟨z, hz⟩ := (hbal y).2 ⟨x, hxy⟩
        exact mem_edgesOf_new.2 ⟨y, z, hz, Or.inr (Or.inr rfl)⟩
      · right
        obtain ⟨z, hz⟩ := (hbal x).1 ⟨y, hxy⟩
        exact mem_edgesOf_new.2 ⟨z, x, hz, Or.inr (Or.inl rfl)⟩

/-- the invariant `Inv` (cycle edges = `bdry R`, successor injective) implies that `bdry R` is a
disjoint union of cycles; the incoming edge is found by the pigeonhole principle on the finite
support of `succ` -/
theorem bdry_cycles_of_inv {R : List Dual} {succ : Nat → Nat} (hI : Inv succ R) :
    (∀ x y z, (x, y) ∈ bdry R → (x, z) ∈ bdry R → y = z) ∧
    (∀ x y z, (y, x) ∈ bdry R → (z, x) ∈ bdry R → y = z) ∧
    (∀ x, (∃ y, (x, y) ∈ bdry R) ↔ (∃ z, (z, x) ∈ bdry R)) := by
  obtain ⟨hC, hinj⟩ := hI
  have hsupp : ∀ x, succ x ≠ x → succ (succ x) ≠ succ x := fun x hx h => hx (hinj h)
  refine ⟨?_, ?_, ?_⟩
  · intro x y z h1 h2
    have a := (hC x y).2 h1
    have b := (hC x z).2 h2
    exact a.1.symm.trans b.1
  · intro x y z h1 h2
    have a := (hC y x).2 h1
    have b := (hC z x).2 h2
    exact hinj (a.1.trans b.1.symm)
  · intro x
    constructor
    · rintro ⟨y, hxy⟩
      have hx : succ x ≠ x := by
        have := (hC x y).2 hxy
        intro h; exact this.2 (h.symm.trans this.1)
      let S := ((bdry R).map Prod.fst).dedup
      have hS : ∀ z, z ∈ S ↔ succ z ≠ z := by
        intro z
        simp only [S, List.mem_dedup, List.mem_map]
        constructor
        · rintro ⟨⟨a, b⟩, hab, rfl⟩
          have := (hC a b).2 hab
          intro h; exact this.2 (h.symm.trans this.1)
        · intro h
          exact ⟨(z, succ z), (hC z (succ z)).1 ⟨rfl, fun e => h e.symm⟩, rfl⟩
      have hSn : S.Nodup := List.nodup_dedup _
      have hmn : (S.map succ).Nodup := hSn.map hinj
      have hsub : S.map succ ⊆ S := by
        intro z hz
        obtain ⟨w, hw, rfl⟩ := List.mem_map.1 hz
        exact (hS _).2 (hsupp w ((hS w).1 hw))
      have hperm : (S.map succ).Perm S :=
        (List.subperm_of_subset hmn hsub).perm_of_length_le (by simp)
      have hxm : x ∈ S.map succ := hperm.mem_iff.2 ((hS x).2 hx)
      obtain ⟨z, hz, hzx⟩ := List.mem_map.1 hxm
      refine ⟨z, (hC z x).1 ⟨hzx, ?_⟩⟩
      intro e; subst e; exact hx hzx
    · rintro ⟨z, hzx⟩
      have a := (hC z x).2 hzx
      have hx : succ x ≠ x := by
        intro h; exact a.2 (hinj (a.1.trans h.symm))
      exact ⟨succ x, (hC x (succ x)).1 ⟨rfl, fun e => hx e.symm⟩⟩

/-- **T18.4 with the cycle invariant.**  `T` closed, `R ⊆ T` removed (no repetition), `p` fresh,
and the cycle `succ` satisfies `Inv succ R` (its edges are exactly `bdry R`): the clipped triple
list (kept triples, then `(x, succ x, p)` for every cycle edge) is closed again. -/
theorem closed_preserved {T R : List Dual} {p : Nat} {succ : Nat → Nat} (hT : Closed T)
    (hR : R ⊆ T) (hRn : R.Nodup) (hp : ∀ d ∈ T, d.a ≠ p ∧ d.b ≠ p ∧ d.c ≠ p)
    (hI : Inv succ R) : Closed (clipDuals T R p) := by
  obtain ⟨h1, h2, h3⟩ := bdry_cycles_of_inv hI
  exact closed_clip hT hR hRn hp h1 h2 h3

/-- the new triples are `(x, succ x, p)` for the vertices `x` on the cycle -/
theorem mem_new_iff {R : List Dual} {p : Nat} {succ : Nat → Nat} (hI : Inv succ R) (d : Dual) :
    d ∈ (bdry R).map (newTri p) ↔ succ d.a ≠ d.a ∧ d.b = succ d.a ∧ d.c = p := by
  simp only [List.mem_map, newTri]
  constructor
  · rintro ⟨⟨x, y⟩, hxy, rfl⟩
    have := (hI.1 x y).2 hxy
    exact ⟨fun h => this.2 (h.symm.trans this.1), this.1.symm, rfl⟩
  · rintro ⟨h1, h2, h3⟩
    refine ⟨(d.a, succ d.a), (hI.1 _ _).1 ⟨rfl, fun e => h1 e.symm⟩, ?_⟩
    cases d; simp_all

/-- **T18.2–T18.4 combined.**  A successful greedy run on the removed part `R` of a closed
surface `T` yields a closed surface again. -/
theorem greedy_closed {T R : List Dual} {p : Nat} {succ : Nat → Nat} (hT : Closed T)
    (hR : R ⊆ T) (hRn : R.Nodup) (hp : ∀ d ∈ T, d.a ≠ p ∧ d.b ≠ p ∧ d.c ≠ p)
    (hG : Greedy R succ) : Closed (clipDuals T R p) :=
  closed_preserved hT hR hRn hp (greedy_inv hG (nodup_edgesOf_of_subset hT.1 hRn hR))

/-! ## C. The array model refines the abstract successor function (T18.1) -/

open Cycle in
theorem get_set (c : Cycle) (i v x : Nat) :
    (c.set i v).get x = if x = i ∧ i < c.ptrs.size then v else c.get x := by
  simp only [Cycle.get, Cycle.set, Array.getD_eq_getD_getElem?, Array.getElem?_setIfInBounds]
  grind

theorem size_set (c : Cycle) (i v : Nat) : (c.set i v).ptrs.size = c.ptrs.size := by
  simp [Cycle.set]

theorem get_set_lt {c : Cycle} {i : Nat} (h : i < c.ptrs.size) (v : Nat) :
    (c.set i v).get = upd c.get i v := by
  funext x; simp only [get_set, upd, h, and_true]

theorem get_of_ge (c : Cycle) (x : Nat) (h : c.ptrs.size ≤ x) : c.get x = x := by
  simp [Cycle.get, Array.getD_eq_getD_getElem?, h]

theorem tryRot_refines (c : Cycle) {ti tj tk : Nat} (hi : ti < c.ptrs.size)
    (hj : tj < c.ptrs.size) (hk : tk < c.ptrs.size) :
    (c.tryRot ti tj tk).map Cycle.get = aTryRot c.get ti tj tk := by
  unfold Cycle.tryRot aTryRot Cycle.contains
  simp only []
  split
  next h =>
    simp only [Bool.and_eq_true, Bool.not_eq_true', bne_iff_ne, ne_eq, beq_iff_eq,
      bne_eq_false_iff_eq] at h
    have hc : Cond1 c.get ti tj tk := ⟨h.1.1.1, h.1.1.2, h.1.2, h.2⟩
    rw [if_pos hc]
    simp only [Option.map_some, ins]
    congr 1
    change ((c.set tk ti).set ti tj).get = _
    rw [get_set_lt (by rw [size_set]; exact hi), get_set_lt hk]
  next h =>
    split
    next h2 =>
      simp only [Bool.and_eq_true, Bool.not_eq_true', bne_iff_ne, ne_eq, beq_iff_eq,
        bne_eq_false_iff_eq] at h h2
      have hc : Cond2 c.get ti tj tk := ⟨h2.1.1.1.1, h2.1.1.1.2, h2.1.1.2, h2.1.2, h2.2⟩
      have hn : ¬ Cond1 c.get ti tj tk := fun hc1 => hc.1 hc1.1
      rw [if_neg hn, if_pos hc]
      simp only [Option.map_some, del]
      congr 1
      rw [← get_set_lt hk, ← get_set_lt (c := c.set tk ti) (by rw [size_set]; exact hj)]
      split <;> rfl
    next h2 =>
      simp only [Bool.and_eq_true, Bool.not_eq_true', bne_iff_ne, ne_eq, beq_iff_eq,
        bne_eq_false_iff_eq] at h h2
      have hn1 : ¬ Cond1 c.get ti tj tk := fun hc => h ⟨⟨⟨hc.1, hc.2.1⟩, hc.2.2.1⟩, hc.2.2.2⟩
      have hn2 : ¬ Cond2 c.get ti tj tk :=
        fun hc => h2 ⟨⟨⟨⟨hc.1, hc.2.1⟩, hc.2.2.1⟩, hc.2.2.2.1⟩, hc.2.2.2.2⟩
      rw [if_neg hn1, if_neg hn2]
      rfl

theorem tryRot_size {c c' : Cycle} {ti tj tk : Nat} (h : c.tryRot ti tj tk = some c') :
    c'.ptrs.size = c.ptrs.size := by
  unfold Cycle.tryRot at h
  simp only [] at h
  split at h
  · cases h; simp [size_set]
  · split at h
    · cases h; split <;> simp [size_set]
    · cases h

/-- **T18.1 (`try_extend`).**  On in-range indices the array `try_extend` is exactly the abstract
three-rotation step on the successor function `c.get` (including the failure case). -/
theorem tryExtend_refines (c : Cycle) {a b d : Nat} (ha : a < c.ptrs.size)
    (hb : b < c.ptrs.size) (hd : d < c.ptrs.size) :
    (c.tryExtend a b d).map Cycle.get = aTryExtend c.get ⟨a, b, d⟩ := by
  have h1 := tryRot_refines c ha hb hd
  have h2 := tryRot_refines c hb hd ha
  have h3 := tryRot_refines c hd ha hb
  unfold Cycle.tryExtend aTryExtend
  simp only []
  rw [← h1, ← h2, ← h3]
  cases c.tryRot a b d <;> cases c.tryRot b d a <;> cases c.tryRot d a b <;> rfl

/-- the form asked for: a successful `tryExtend` is the abstract step for the rotation that fired -/
theorem tryExtend_get {c c' : Cycle} {a b d : Nat} (ha : a < c.ptrs.size)
    (hb : b < c.ptrs.size) (hd : d < c.ptrs.size) (h : c.tryExtend a b d = some c') :
    aTryExtend c.get ⟨a, b, d⟩ = some c'.get ∧ c'.ptrs.size = c.ptrs.size ∧
      ∃ t', IsRot t' ⟨a, b, d⟩ ∧ aTryRot c.get t'.a t'.b t'.c = some c'.get := by
  have hr := tryExtend_refines c ha hb hd
  rw [h] at hr
  refine ⟨hr.symm, ?_, ?_⟩
  · unfold Cycle.tryExtend at h
    split at h
    next r h1 => cases h; exact tryRot_size h1
    next =>
      split at h
      next r h2 => cases h; exact tryRot_size h2
      next => exact tryRot_size h
  · have hr' := hr.symm
    unfold aTryExtend at hr'
    simp only [] at hr'
    split at hr'
    next r h1 => exact ⟨⟨a, b, d⟩, Or.inl rfl, h1.trans hr'⟩
    next =>
      split at hr'
      next r h2 => exact ⟨⟨b, d, a⟩, Or.inr (Or.inl rfl), h2.trans hr'⟩
      next => exact ⟨⟨d, a, b⟩, Or.inr (Or.inr rfl), hr'⟩

theorem walk_set_of_not_mem {n : Nat} {c : Cycle} {cur v s : Nat}
    (h : cur ∉ Cycle.walk n c s) : Cycle.walk n (c.set cur v) s = Cycle.walk n c s := by
  induction n generalizing s with
  | zero => rfl
  | succ n ih =>
    simp only [Cycle.walk, List.mem_cons, not_or] at h ⊢
    have : (c.set cur v).get s = c.get s := by
      rw [get_set]; rw [if_neg]; intro hh; exact h.1 hh.1.symm
    rw [this, ih h.2]

theorem resetWalk_size (n : Nat) (c : Cycle) (cur : Nat) :
    (Cycle.resetWalk n c cur).ptrs.size = c.ptrs.size ∧
    (Cycle.resetWalk n c cur).len = c.len ∧ (Cycle.resetWalk n c cur).start = c.start := by
  induction n generalizing c cur with
  | zero => exact ⟨rfl, rfl, rfl⟩
  | succ n ih =>
    simp only [Cycle.resetWalk]
    obtain ⟨h1, h2, h3⟩ := ih (c.set cur cur) (c.get cur)
    exact ⟨h1.trans (size_set _ _ _), h2, h3⟩

/-- the reset walk of `init` turns exactly the visited entries into self pointers, provided the
walk visits distinct entries -/
theorem resetWalk_get {n : Nat} {c : Cycle} {cur : Nat} (h : (Cycle.walk n c cur).Nodup)
    (x : Nat) :
    (Cycle.resetWalk n c cur).get x = if x ∈ Cycle.walk n c cur then x else c.get x := by
  induction n generalizing c cur with
  | zero => simp [Cycle.resetWalk, Cycle.walk]
  | succ n ih =>
    simp only [Cycle.walk, List.nodup_cons] at h
    simp only [Cycle.resetWalk, Cycle.walk, List.mem_cons]
    have hw := walk_set_of_not_mem (v := cur) h.1
    rw [ih (by rw [hw]; exact h.2), hw, get_set]
    have := get_of_ge c cur
    grind

/-- **T18.1 (`init`).**  If the walk of `len` steps from `start` visits distinct entries and
covers every entry with `get x ≠ x` (the representation invariant of `SimpleCycle`), then `init`
produces exactly the triangle successor function, with `len = 3` and `start = a`. -/
theorem init_get {c : Cycle} {a b d : Nat} (hnd : (Cycle.walk c.len c c.start).Nodup)
    (hcov : ∀ x, c.get x ≠ x → x ∈ Cycle.walk c.len c c.start)
    (ha : a < c.ptrs.size) (hb : b < c.ptrs.size) (hd : d < c.ptrs.size) :
    (c.init a b d).get = triSucc a b d ∧ (c.init a b d).len = 3 ∧ (c.init a b d).start = a ∧
      (c.init a b d).ptrs.size = c.ptrs.size := by
  obtain ⟨s1, s2, s3⟩ := resetWalk_size c.len c c.start
  have hreset : (Cycle.resetWalk c.len c c.start).get = id := by
    funext x
    rw [resetWalk_get hnd]
    by_cases hx : x ∈ Cycle.walk c.len c c.start
    · rw [if_pos hx]; rfl
    · rw [if_neg hx]
      by_contra hne
      exact hx (hcov x hne)
  refine ⟨?_, rfl, rfl, ?_⟩
  · unfold Cycle.init triSucc
    simp only []
    rw [get_set_lt (by simp only [size_set]; exact s1 ▸ hd),
      get_set_lt (by simp only [size_set]; exact s1 ▸ hb)]
    rw [← hreset]
    congr 2
    exact get_set_lt (c := { Cycle.resetWalk c.len c c.start with len := 3, start := a })
      (s1 ▸ ha) b
  · unfold Cycle.init
    simp only [size_set]
    exact s1

/-! ## Non-vacuity: the cube -/

/-- the 8 vertex duals of a cube (planes 0..5) -/
def cube : List Dual :=
  [⟨2, 5, 0⟩, ⟨5, 3, 0⟩, ⟨1, 5, 2⟩, ⟨5, 1, 3⟩, ⟨4, 2, 0⟩, ⟨4, 0, 3⟩, ⟨2, 4, 1⟩, ⟨4, 3, 1⟩]

instance (T : List Dual) : Decidable (Closed T) := by unfold Closed; infer_instance

/-- the cube is a closed surface -/
example : Closed cube := by decide

/-- removing the two vertices `(2,5,0)` and `(5,3,0)` of the cube: `compute_boundary` succeeds, the
cycle is `2 → 5 → 3 → 0 → 2`, which is exactly `bdry` of the removed pair -/
example :
    (Clip.computeBoundary id (Cycle.new 7) #[(⟨2, 5, 0⟩ : Dual), ⟨5, 3, 0⟩]).map
      (fun r => (r.1.closedWalk, r.1.len)) = some ([2, 5, 3, 0, 2], 4) := by decide

example : bdry [⟨2, 5, 0⟩, ⟨5, 3, 0⟩] = [(2, 5), (0, 2), (5, 3), (3, 0)] := by decide

/-- and the clipped cube (new plane 6) is closed again -/
example : Closed (clipDuals cube [⟨2, 5, 0⟩, ⟨5, 3, 0⟩] 6) := by decide

/-- the degenerate closing case is real: removing *all four* vertices of a tetrahedron, the greedy
procedure "succeeds" but leaves a 2-cycle (`len = 2`), while the true boundary is empty -/
example :
    (Clip.computeBoundary id (Cycle.new 5)
        #[(⟨0, 1, 2⟩ : Dual), ⟨0, 3, 1⟩, ⟨1, 3, 2⟩, ⟨0, 2, 3⟩]).map
      (fun r => (r.1.closedWalk, r.1.len)) = some ([0, 3, 0], 2)
    ∧ Closed [⟨0, 1, 2⟩, ⟨0, 3, 1⟩, ⟨1, 3, 2⟩, ⟨0, 2, 3⟩]
    ∧ bdry [⟨0, 1, 2⟩, ⟨0, 3, 1⟩, ⟨1, 3, 2⟩, ⟨0, 2, 3⟩] = [] := by decide

/-! ## E. Discharging the side condition `Open`: the cycle is a single cycle -/

/-- the raw greedy run, exactly as the code performs it (no side condition) -/
inductive GreedyRaw : List Dual → (Nat → Nat) → Prop
  | init {t t' : Dual} (hr : IsRot t' t) (hab : t.a ≠ t.b) (hbc : t.b ≠ t.c) (hca : t.c ≠ t.a) :
      GreedyRaw [t] (triSucc t'.a t'.b t'.c)
  | step {D : List Dual} {succ succ' : Nat → Nat} {t t' : Dual} (hD : GreedyRaw D succ)
      (hr : IsRot t' t) (h : aTryRot succ t'.a t'.b t'.c = some succ') :
      GreedyRaw (t :: D) succ'

/-- single cycle: any two vertices on the cycle are connected by iterating `succ` -/
def Conn (succ : Nat → Nat) : Prop :=
  ∀ x y, succ x ≠ x → succ y ≠ y → ∃ k, succ^[k] x = y

theorem supp_iterate {succ : Nat → Nat} (hinj : Function.Injective succ) {x : Nat}
    (hx : succ x ≠ x) (k : Nat) : succ (succ^[k] x) ≠ succ^[k] x := by
  intro h
  rw [← Function.iterate_succ_apply' succ k x, Function.iterate_succ_apply] at h
  exact hx ((hinj.iterate k) h)

theorem conn_tri {a b c : Nat} (hab : a ≠ b) (hbc : b ≠ c) (hca : c ≠ a) :
    Conn (triSucc a b c) := by
  have ha : triSucc a b c a = b := by simp only [triSucc, upd, id]; grind
  have hb : triSucc a b c b = c := by simp only [triSucc, upd, id]; grind
  have hc : triSucc a b c c = a := by simp only [triSucc, upd, id]; grind
  have hs : ∀ x, triSucc a b c x ≠ x → x = a ∨ x = b ∨ x = c := by
    intro x; simp only [triSucc, upd, id]; grind
  intro x y hx hy
  rcases hs x hx with rfl | rfl | rfl <;> rcases hs y hy with rfl | rfl | rfl
  · exact ⟨0, rfl⟩
  · exact ⟨1, ha⟩
  · exact ⟨2, by simp [Function.iterate_succ, ha, hb]⟩
  · exact ⟨2, by simp [Function.iterate_succ, hb, hc]⟩
  · exact ⟨0, rfl⟩
  · exact ⟨1, hb⟩
  · exact ⟨1, hc⟩
  · exact ⟨2, by simp [Function.iterate_succ, hc, ha]⟩
  · exact ⟨0, rfl⟩

theorem conn_ins {succ : Nat → Nat} {ti tj tk : Nat} (hinj : Function.Injective succ)
    (hC : Conn succ) (hc : Cond1 succ ti tj tk) : Conn (ins succ ti tj tk) := by
  obtain ⟨h1, h2, h3, h4⟩ := hc
  have s_ti : ins succ ti tj tk ti = tj := by simp [ins, upd]
  have s_tk : ins succ ti tj tk tk = ti := by simp only [ins, upd]; grind
  have s_else : ∀ z, z ≠ ti → z ≠ tk → ins succ ti tj tk z = succ z := by
    intro z; simp only [ins, upd]; grind
  -- every `succ`-path is an `ins`-path
  have key : ∀ k x, succ x ≠ x → ∃ k', (ins succ ti tj tk)^[k'] x = succ^[k] x := by
    intro k x hx
    induction k with
    | zero => exact ⟨0, rfl⟩
    | succ k ih =>
      obtain ⟨k', hk'⟩ := ih
      have hz := supp_iterate hinj hx k
      rw [Function.iterate_succ_apply']
      by_cases hzk : succ^[k] x = tk
      · refine ⟨k' + 2, ?_⟩
        rw [Function.iterate_succ_apply', Function.iterate_succ_apply', hk', hzk, s_tk, s_ti, h4]
      · refine ⟨k' + 1, ?_⟩
        rw [Function.iterate_succ_apply', hk', s_else _ (by grind) hzk]
  have supp' : ∀ z, ins succ ti tj tk z ≠ z → z = ti ∨ succ z ≠ z := by
    intro z; simp only [ins, upd]; grind
  have reach : ∀ x y, succ x ≠ x → succ y ≠ y → ∃ k, (ins succ ti tj tk)^[k] x = y := by
    intro x y hx hy
    obtain ⟨k, hk⟩ := hC x y hx hy
    obtain ⟨k', hk'⟩ := key k x hx
    exact ⟨k', hk'.trans hk⟩
  intro x y hx hy
  rcases supp' x hx with rfl | hx' <;> rcases supp' y hy with rfl | hy'
  · exact ⟨0, rfl⟩
  · obtain ⟨k, hk⟩ := reach tj y h2 hy'
    exact ⟨k + 1, by rw [Function.iterate_succ_apply, s_ti, hk]⟩
  · obtain ⟨k, hk⟩ := reach x tk hx' h3
    exact ⟨k + 1, by rw [Function.iterate_succ_apply', hk, s_tk]⟩
  · exact reach x y hx' hy'

theorem conn_del {succ : Nat → Nat} {ti tj tk : Nat} (hinj : Function.Injective succ)
    (hC : Conn succ) (hc : Cond2 succ ti tj tk) : Conn (del succ ti tj tk) := by
  obtain ⟨h1, h2, h3, h4, h5⟩ := hc
  have hjk : tj ≠ tk := by grind
  have s_tk : del succ ti tj tk tk = ti := by simp only [del, upd]; grind
  have s_else : ∀ z, z ≠ tj → z ≠ tk → del succ ti tj tk z = succ z := by
    intro z; simp only [del, upd]; grind
  have key : ∀ k x, succ x ≠ x → x ≠ tj →
      ∃ k', (del succ ti tj tk)^[k'] x = if succ^[k] x = tj then ti else succ^[k] x := by
    intro k x hx hxj
    induction k with
    | zero => exact ⟨0, by simp [hxj]⟩
    | succ k ih =>
      obtain ⟨k', hk'⟩ := ih
      rw [Function.iterate_succ_apply']
      by_cases hw : succ^[k] x = tj
      · rw [if_pos hw] at hk'
        refine ⟨k', ?_⟩
        rw [hk', hw, h5, if_neg (by grind)]
      · rw [if_neg hw] at hk'
        by_cases hwk : succ^[k] x = tk
        · refine ⟨k' + 1, ?_⟩
          rw [Function.iterate_succ_apply', hk', hwk, s_tk, h4, if_pos rfl]
        · refine ⟨k' + 1, ?_⟩
          have : succ (succ^[k] x) ≠ tj := fun e => hwk (hinj (e.trans h4.symm))
          rw [Function.iterate_succ_apply', hk', s_else _ hw hwk, if_neg this]
  have supp' : ∀ z, del succ ti tj tk z ≠ z → z ≠ tj ∧ succ z ≠ z := by
    intro z; simp only [del, upd]; grind
  intro x y hx hy
  obtain ⟨hxj, hx'⟩ := supp' x hx
  obtain ⟨hyj, hy'⟩ := supp' y hy
  obtain ⟨k, hk⟩ := hC x y hx' hy'
  obtain ⟨k', hk'⟩ := key k x hx' hxj
  rw [hk, if_neg hyj] at hk'
  exact ⟨k', hk'⟩

/-- in the closing situation of case 2 a single cycle is just the triangle `tk → tj → ti → tk` -/
theorem supp_of_closing {succ : Nat → Nat} {ti tj tk : Nat} (hC : Conn succ)
    (hc : Cond2 succ ti tj tk) (hclose : succ ti = tk) :
    ∀ x, succ x ≠ x → x = ti ∨ x = tj ∨ x = tk := by
  obtain ⟨h1, h2, h3, h4, h5⟩ := hc
  have : ∀ k, succ^[k] tk = ti ∨ succ^[k] tk = tj ∨ succ^[k] tk = tk := by
    intro k
    induction k with
    | zero => exact Or.inr (Or.inr rfl)
    | succ k ih =>
      rw [Function.iterate_succ_apply']
      rcases ih with e | e | e <;> rw [e] <;> grind
  intro x hx
  obtain ⟨k, hk⟩ := hC tk x h3 hx
  rw [← hk]; exact this k

/-- no non-empty sub-collection of `R` is a closed surface (true for every proper part `R` of a
connected closed surface) -/
def NoClosedPart (R : List Dual) : Prop := ∀ S, S ≠ [] → S ⊆ R → bdry S ≠ []

/-- **The side condition is automatic.**  If no non-empty part of `R` is closed, then every raw
greedy run on `R` is a `Greedy` run (no closing step occurs), the cycle is a single cycle, and
hence all of B and D applies to it. -/
theorem greedy_of_raw {R : List Dual} {succ : Nat → Nat} (h : GreedyRaw R succ)
    (hN : (edgesOf R).Nodup) (hR : NoClosedPart R) : Greedy R succ ∧ Conn succ := by
  induction h with
  | init hr hab hbc hca =>
    refine ⟨Greedy.init hr hab hbc hca, ?_⟩
    rw [triSucc_isRot hr hab hbc hca]; exact conn_tri hab hbc hca
  | @step D succ succ' t t' hD hr h ih =>
    have hND : (edgesOf D).Nodup := by
      rw [edgesOf_cons] at hN; exact (List.nodup_append.1 hN).2.1
    have hRD : NoClosedPart D := fun S hS hsub => hR S hS (fun x hx => List.mem_cons_of_mem _ (hsub hx))
    obtain ⟨hG, hC⟩ := ih hND hRD
    have hI := greedy_inv hG hND
    have ht := edges_eq_of_isRot hr
    -- the step is not a closing step
    have hopen : Open t D := by
      by_contra hno
      have hall : ∀ e ∈ t.edges, e.swap ∈ edgesOf D := by
        intro e he; by_contra h'; exact hno ⟨e, he, h'⟩
      have hd := disjoint_of_nodup_cons hN
      have e1 := hall (t'.a, t'.b) ((ht _).2 (Or.inl rfl))
      have e2 := hall (t'.b, t'.c) ((ht _).2 (Or.inr (Or.inl rfl)))
      have e3 := hall (t'.c, t'.a) ((ht _).2 (Or.inr (Or.inr rfl)))
      have d1 := hd (t'.a, t'.b) ((ht _).2 (Or.inl rfl))
      have d2 := hd (t'.b, t'.c) ((ht _).2 (Or.inr (Or.inl rfl)))
      have d3 := hd (t'.c, t'.a) ((ht _).2 (Or.inr (Or.inr rfl)))
      have b1 := (hI.1 t'.b t'.a).2 (mem_bdry.2 ⟨e1, d1⟩)
      have b2 := (hI.1 t'.c t'.b).2 (mem_bdry.2 ⟨e2, d2⟩)
      have b3 := (hI.1 t'.a t'.c).2 (mem_bdry.2 ⟨e3, d3⟩)
      have hc2 : Cond2 succ t'.a t'.b t'.c := by
        refine ⟨?_, ?_, ?_, b2.1, b1.1⟩ <;> grind
      have hsupp := supp_of_closing hC hc2 b3.1
      -- then `t :: D` has empty boundary
      apply hR (t :: D) (List.cons_ne_nil _ _) (List.Subset.refl _)
      rw [List.eq_nil_iff_forall_not_mem]
      rintro ⟨x, y⟩ hxy
      rw [mem_bdry_cons] at hxy
      simp only [ht, Prod.swap, Prod.mk.injEq] at hxy
      have hb : (x, y) ∈ edgesOf D → (y, x) ∉ edgesOf D → succ x = y ∧ x ≠ y :=
        fun p q => (hI.1 x y).2 (mem_bdry.2 ⟨p, q⟩)
      have := hsupp x
      grind
    exact ⟨Greedy.step hG hr hopen h, by
      unfold aTryRot at h
      split at h
      next hc => cases h; exact conn_ins hI.2 hC hc
      next =>
        split at h
        next hc => cases h; exact conn_del hI.2 hC hc
        next => cases h⟩

theorem noClosedPart_of_connected {T R : List Dual}
    (hconn : ∀ S, S ≠ [] → S ⊆ T → bdry S = [] → T ⊆ S)
    (hR : R ⊆ T) (hproper : ∃ t ∈ T, t ∉ R) : NoClosedPart R := by
  intro S hS hsub hb
  obtain ⟨t, htT, htR⟩ := hproper
  exact htR (hsub (hconn S hS (fun x hx => hR (hsub hx)) hb htT))

/-! ## F. The executable `computeBoundary` performs a raw greedy run -/

section Model
variable {V : Type}

/-- all three indices of a triple are valid positions of the successor array -/
def InRange (N : Nat) (d : Dual) : Prop := d.a < N ∧ d.b < N ∧ d.c < N

theorem findExt_spec {dual : V → Dual} {c : Cycle} {vs : Array V} :
    ∀ (fuel idx j : Nat) (c' : Cycle), Clip.findExt dual c vs fuel idx = some (j, c') →
      idx ≤ j ∧ ∃ h : j < vs.size,
        c.tryExtend (dual vs[j]).a (dual vs[j]).b (dual vs[j]).c = some c' := by
  intro fuel
  induction fuel with
  | zero => intro idx j c' h; simp [Clip.findExt] at h
  | succ fuel ih =>
    intro idx j c' h
    unfold Clip.findExt at h
    split at h
    next hlt =>
      simp only [] at h
      split at h
      next c1 hc1 =>
        cases h
        exact ⟨Nat.le_refl _, hlt, hc1⟩
      next =>
        obtain ⟨h1, h2⟩ := ih (idx + 1) j c' h
        exact ⟨by omega, h2⟩
    next => cases h

theorem swap_take {vs : Array V} {i j : Nat} (hij : i ≤ j) (hj : j < vs.size) :
    ((if j > i then vs.swapIfInBounds i j else vs).toList.take (i + 1)) =
      vs.toList.take i ++ [vs[j]] := by
  have hi : i < vs.size := by omega
  split
  next hgt =>
    apply List.ext_getElem
    · simp; omega
    · intro k h1 h2
      simp only [List.length_take, Array.length_toList, Array.size_swapIfInBounds] at h1
      rw [List.getElem_take, Array.getElem_toList, Array.getElem_swapIfInBounds]
      by_cases hk : k = i
      · subst hk
        rw [dif_pos ⟨rfl, hj⟩, List.getElem_append_right (by simp; omega)]
        simp
      · have hk' : k < i := by omega
        rw [dif_neg (by omega), dif_neg (by omega),
          List.getElem_append_left (by simp; omega)]
        simp
  next hle =>
    have : j = i := by omega
    subst this
    rw [List.take_succ_eq_append_getElem (by simpa using hi)]
    simp

theorem swap_perm' {vs : Array V} {i j : Nat} (hi : i < vs.size) (hj : j < vs.size) :
    (if j > i then vs.swapIfInBounds i j else vs).toList.Perm vs.toList := by
  split
  · rw [Array.swapIfInBounds_def, dif_pos hi, dif_pos hj]
    exact Array.perm_iff_toList_perm.1 (Array.swap_perm hi hj)
  · exact List.Perm.refl _

theorem boundaryLoop_greedy {dual : V → Dual} {N : Nat} :
    ∀ (fuel i : Nat) (c : Cycle) (vs : Array V) (c' : Cycle) (vs' : Array V),
      Clip.boundaryLoop dual fuel i c vs = some (c', vs') → vs.size - i ≤ fuel → i ≤ vs.size →
      c.ptrs.size = N → (∀ v ∈ vs.toList, InRange N (dual v)) →
      GreedyRaw (((vs.toList.take i).map dual).reverse) c.get →
      vs'.toList.Perm vs.toList ∧ GreedyRaw ((vs'.toList.map dual).reverse) c'.get ∧
        c'.ptrs.size = N := by
  intro fuel
  induction fuel with
  | zero =>
    intro i c vs c' vs' h hf hi hN hR hG
    simp only [Clip.boundaryLoop] at h
    cases h
    have : i = vs.toList.length := by simp; omega
    rw [this, List.take_length] at hG
    exact ⟨List.Perm.refl _, hG, hN⟩
  | succ fuel ih =>
    intro i c vs c' vs' h hf hi hN hR hG
    unfold Clip.boundaryLoop at h
    split at h
    next hlt =>
      split at h
      next => cases h
      next idx c1 hfind =>
        obtain ⟨hle, hidx, hext⟩ := findExt_spec _ _ _ _ hfind
        have hr := hR vs[idx] (by simp)
        obtain ⟨_, hsz, t', hrot, hrot'⟩ :=
          tryExtend_get (hN ▸ hr.1) (hN ▸ hr.2.1) (hN ▸ hr.2.2) hext
        have hperm := swap_perm' (vs := vs) hlt hidx
        have hsize : (if idx > i then vs.swapIfInBounds i idx else vs).size = vs.size := by
          split <;> simp
        have := ih (i + 1) c1 _ c' vs' h (by omega) (by omega) (hsz.trans hN)
          (fun v hv => hR v (hperm.mem_iff.1 hv))
          (by
            rw [swap_take hle hidx, List.map_append, List.reverse_append]
            exact GreedyRaw.step hG hrot hrot')
        exact ⟨this.1.trans hperm, this.2⟩
    next hge =>
      cases h
      have : i = vs.toList.length := by simp; omega
      rw [this, List.take_length] at hG
      exact ⟨List.Perm.refl _, hG, hN⟩

/-- **`compute_boundary` is a raw greedy run.**  If the cycle satisfies the reset invariant, all
indices are in range and the first triple has distinct indices, then a successful
`computeBoundary` returns a permutation `vs'` of the input and a cycle whose successor function
is the result of a `GreedyRaw` run over the duals of `vs'`. -/
theorem computeBoundary_greedy {dual : V → Dual} {c c' : Cycle} {vs vs' : Array V}
    (hnd : (Cycle.walk c.len c c.start).Nodup)
    (hcov : ∀ x, c.get x ≠ x → x ∈ Cycle.walk c.len c c.start)
    (hR : ∀ v ∈ vs.toList, InRange c.ptrs.size (dual v))
    (hdist : ∀ h : 0 < vs.size, (dual vs[0]).a ≠ (dual vs[0]).b ∧
      (dual vs[0]).b ≠ (dual vs[0]).c ∧ (dual vs[0]).c ≠ (dual vs[0]).a)
    (h : Clip.computeBoundary dual c vs = some (c', vs')) :
    vs'.toList.Perm vs.toList ∧ GreedyRaw ((vs'.toList.map dual).reverse) c'.get ∧
      c'.ptrs.size = c.ptrs.size := by
  unfold Clip.computeBoundary at h
  split at h
  next hpos =>
    simp only [] at h
    have hr := hR vs[0] (by simp)
    obtain ⟨hd1, hd2, hd3⟩ := hdist hpos
    obtain ⟨g1, _, _, g4⟩ := init_get hnd hcov hr.1 hr.2.1 hr.2.2
    refine boundaryLoop_greedy _ _ _ _ _ _ h (by omega) (by omega) g4 hR ?_
    rw [g1]
    have : (vs.toList.take 1).map dual = [dual vs[0]] := by
      rw [List.take_succ_eq_append_getElem (by simpa using hpos)]; simp
    rw [this]
    exact GreedyRaw.init (t := dual vs[0]) (Or.inl rfl) hd1 hd2 hd3
  next => cases h

theorem nodup_edgesOf_perm {R R' : List Dual} (h : R.Perm R') (hN : (edgesOf R).Nodup) :
    (edgesOf R').Nodup :=
  (List.Perm.flatMap_right Dual.edges h).nodup_iff.1 hN

/-- **T18.1–T18.3 for the executable model.**  A successful `computeBoundary` on the removed
vertices `vs` (their duals: pairwise distinct edges, no non-empty closed part, indices in range,
first triple non-degenerate; cycle state satisfying the reset invariant) ends with a successor
array whose proper edges are exactly `bdry` of the removed duals; it is injective and a single
cycle. -/
theorem computeBoundary_bdry {dual : V → Dual} {c c' : Cycle} {vs vs' : Array V}
    (hnd : (Cycle.walk c.len c c.start).Nodup)
    (hcov : ∀ x, c.get x ≠ x → x ∈ Cycle.walk c.len c c.start)
    (hR : ∀ v ∈ vs.toList, InRange c.ptrs.size (dual v))
    (hdist : ∀ h : 0 < vs.size, (dual vs[0]).a ≠ (dual vs[0]).b ∧
      (dual vs[0]).b ≠ (dual vs[0]).c ∧ (dual vs[0]).c ≠ (dual vs[0]).a)
    (hN : (edgesOf (vs.toList.map dual)).Nodup) (hNC : NoClosedPart (vs.toList.map dual))
    (h : Clip.computeBoundary dual c vs = some (c', vs')) :
    Inv c'.get (vs.toList.map dual) ∧ Conn c'.get := by
  obtain ⟨hperm, hG, _⟩ := computeBoundary_greedy hnd hcov hR hdist h
  have hp : ((vs'.toList.map dual).reverse).Perm (vs.toList.map dual) :=
    (List.reverse_perm _).trans (hperm.map dual)
  have hN' := nodup_edgesOf_perm hp.symm hN
  have hNC' : NoClosedPart ((vs'.toList.map dual).reverse) :=
    fun S hS hsub => hNC S hS (fun x hx => hp.mem_iff.1 (hsub hx))
  obtain ⟨hG', hC⟩ := greedy_of_raw hG hN' hNC'
  have hI := greedy_inv hG' hN'
  refine ⟨⟨?_, hI.2⟩, hC⟩
  intro x y
  rw [hI.1 x y]
  exact bdry_perm hp _

/-- **T18.3 for the executable model.**  Two successful `computeBoundary` runs on the same removed
set, stored in any two orders and with any rotation of each triple, end with the same successor
function. -/
theorem computeBoundary_canonical {dual : V → Dual} {c₁ c₁' c₂ c₂' : Cycle}
    {vs₁ vs₁' vs₂ vs₂' : Array V}
    (hnd₁ : (Cycle.walk c₁.len c₁ c₁.start).Nodup)
    (hcov₁ : ∀ x, c₁.get x ≠ x → x ∈ Cycle.walk c₁.len c₁ c₁.start)
    (hR₁ : ∀ v ∈ vs₁.toList, InRange c₁.ptrs.size (dual v))
    (hdist₁ : ∀ h : 0 < vs₁.size, (dual vs₁[0]).a ≠ (dual vs₁[0]).b ∧
      (dual vs₁[0]).b ≠ (dual vs₁[0]).c ∧ (dual vs₁[0]).c ≠ (dual vs₁[0]).a)
    (hN₁ : (edgesOf (vs₁.toList.map dual)).Nodup) (hNC₁ : NoClosedPart (vs₁.toList.map dual))
    (h₁ : Clip.computeBoundary dual c₁ vs₁ = some (c₁', vs₁'))
    (hnd₂ : (Cycle.walk c₂.len c₂ c₂.start).Nodup)
    (hcov₂ : ∀ x, c₂.get x ≠ x → x ∈ Cycle.walk c₂.len c₂ c₂.start)
    (hR₂ : ∀ v ∈ vs₂.toList, InRange c₂.ptrs.size (dual v))
    (hdist₂ : ∀ h : 0 < vs₂.size, (dual vs₂[0]).a ≠ (dual vs₂[0]).b ∧
      (dual vs₂[0]).b ≠ (dual vs₂[0]).c ∧ (dual vs₂[0]).c ≠ (dual vs₂[0]).a)
    (hN₂ : (edgesOf (vs₂.toList.map dual)).Nodup) (hNC₂ : NoClosedPart (vs₂.toList.map dual))
    (h₂ : Clip.computeBoundary dual c₂ vs₂ = some (c₂', vs₂'))
    (hrp : RotPerm (vs₁.toList.map dual) (vs₂.toList.map dual)) :
    c₁'.get = c₂'.get := by
  have i₁ := (computeBoundary_bdry hnd₁ hcov₁ hR₁ hdist₁ hN₁ hNC₁ h₁).1.1
  have i₂ := (computeBoundary_bdry hnd₂ hcov₂ hR₂ hdist₂ hN₂ hNC₂ h₂).1.1
  apply succ_ext
  intro x y
  rw [i₁ x y, i₂ x y]
  exact bdry_rotPerm hrp _

/-! ### the new vertices read off the closed walk -/

theorem pairs_walk (n : Nat) (c : Cycle) (s : Nat) :
    Clip.pairs (Cycle.walk (n + 1) c s) = (Cycle.walk n c s).map (fun x => (x, c.get x)) := by
  induction n generalizing s with
  | zero => simp [Cycle.walk, Clip.pairs]
  | succ n ih =>
    have := ih (c.get s)
    simp only [Cycle.walk, Clip.pairs, List.map_cons] at this ⊢
    rw [this]

/-- **New vertices = boundary edges.**  If the final cycle state satisfies the walk invariant
(`len` steps from `start` visit distinct entries, exactly those with `get x ≠ x`) and its edges
are `bdry R`, then the `(cur, next)` pairs read by `clip_by_plane` from `iter().take(len + 1)` are
exactly the boundary edges of `R`, each once. -/
theorem pairs_closedWalk_perm {c : Cycle} {R : List Dual}
    (hnd : (Cycle.walk c.len c c.start).Nodup)
    (hcov : ∀ x, c.get x ≠ x ↔ x ∈ Cycle.walk c.len c c.start)
    (hI : CInv c.get R) (hN : (edgesOf R).Nodup) :
    (Clip.pairs c.closedWalk).Perm (bdry R) := by
  unfold Cycle.closedWalk
  rw [pairs_walk]
  rw [List.perm_ext_iff_of_nodup (hnd.map (fun a b h => congrArg Prod.fst h)) (nodup_bdry hN)]
  rintro ⟨x, y⟩
  rw [← hI x y, List.mem_map]
  constructor
  · rintro ⟨z, hz, he⟩
    have h1 : z = x := congrArg Prod.fst he
    have h2 : c.get z = y := congrArg Prod.snd he
    subst h1
    exact ⟨h2, fun e => (hcov z).2 hz (h2.trans e.symm)⟩
  · rintro ⟨rfl, hne⟩
    exact ⟨x, (hcov x).1 (fun e => hne e.symm), rfl⟩

end Model

end MVoro.CycleBoundary

#print axioms MVoro.CycleBoundary.step
#print axioms MVoro.CycleBoundary.step_closed
#print axioms MVoro.CycleBoundary.init_inv
#print axioms MVoro.CycleBoundary.greedy_inv
#print axioms MVoro.CycleBoundary.greedy_canonical
#print axioms MVoro.CycleBoundary.tryExtend_refines
#print axioms MVoro.CycleBoundary.init_get
#print axioms MVoro.CycleBoundary.closed_clip
#print axioms MVoro.CycleBoundary.greedy_closed


#print axioms MVoro.CycleBoundary.greedy_of_raw
#print axioms MVoro.CycleBoundary.computeBoundary_greedy
#print axioms MVoro.CycleBoundary.computeBoundary_bdry
#print axioms MVoro.CycleBoundary.computeBoundary_canonical
#print axioms MVoro.CycleBoundary.pairs_closedWalk_perm
