/-
C15 (T15.3), towards V − E + F = 2: which planes (dual vertices) survive a clip.

A cell is a closed triple surface `T` (every directed edge once, with its reverse).  A clip removes the triples `R`, whose
boundary the greedy reconstruction returns as the cycle `succ` (`CycleBoundary.greedy_inv`), and adds one triple
`(x, succ x, p)` per boundary edge.  A plane `j` of `R` with `succ j = j` is *interior* to the removed region.

* `interior_gone`: if the link of `j` in `T` is connected (the triples at `j` form one umbrella — true on a sphere, false
  at a pinched vertex), an interior plane of `R` has ALL its triples in `R`: it vanishes from the cell.
* `plane_survives_iff`: a plane of `T` occurs in the clipped surface iff it is not interior to `R`.
* `euler_arith`: with `k = |R|`, `b = |∂R|`, `m` interior planes and the disc relation `2m + b = k + 2`
  (`V − E + F = 1` for the removed disc), the clip keeps `V + 4 = 2F` (⇔ `V − 3V/2 + F = 2`).

Not proved here: link connectedness of the surfaces the algorithm reaches, and the disc relation for every removed
region (both are facts about triangulated spheres, trusted-base item 2); the check computes V − E + F = 2 exactly for
every cell (op `withfaces`).
-/
import MVoro.Proofs.CycleBoundary
import Mathlib.Logic.Relation
import Mathlib.Tactic.Linarith

namespace MVoro.Euler
open MVoro MVoro.CycleBoundary

/-- `j` is one of the three planes of the triple -/
def HasPlane (d : Dual) (j : Nat) : Prop := j = d.a ∨ j = d.b ∨ j = d.c

/-- one step around `j`: `d'` is the triple across the edge of `d` that leaves `j` -/
def StepAt (T : List Dual) (j : Nat) (d d' : Dual) : Prop := d' ∈ T ∧ ∃ x, (j, x) ∈ d.edges ∧ (x, j) ∈ d'.edges

/-- the triples of `T` at `j` form a single umbrella -/
def LinkConn (T : List Dual) (j : Nat) : Prop :=
  ∀ d ∈ T, ∀ d' ∈ T, HasPlane d j → HasPlane d' j → Relation.ReflTransGen (StepAt T j) d d'

/-- a plane that is not on the boundary cycle has no boundary edge leaving it -/
theorem no_bdry_out {R : List Dual} {succ : Nat → Nat} (hI : CInv succ R) {j : Nat} (hj : succ j = j) (x : Nat) :
    (j, x) ∉ bdry R := by
  intro h
  have := (hI j x).2 h
  exact this.2 (by rw [← this.1, hj])

/-- **interior planes vanish**: all triples at an interior plane of the removed region belong to the removed region -/
theorem interior_gone {T R : List Dual} {succ : Nat → Nat} (hT : (edgesOf T).Nodup) (hR : R ⊆ T) (hI : CInv succ R)
    {j : Nat} (hj : succ j = j) (hlink : LinkConn T j) {r0 : Dual} (hr0 : r0 ∈ R) (hr0j : HasPlane r0 j) :
    ∀ d ∈ T, HasPlane d j → d ∈ R := by
  have key : ∀ d, Relation.ReflTransGen (StepAt T j) r0 d → d ∈ R := by
    intro d chain
    induction chain with
    | refl => exact hr0
    | tail _ hstep ih =>
      rename_i a b _
      obtain ⟨hbT, x, hx1, hx2⟩ := hstep
      have he : (j, x) ∈ edgesOf R := mem_edgesOf.mpr ⟨a, ih, hx1⟩
      have hnb := no_bdry_out hI hj x
      rw [mem_bdry] at hnb
      have hsw : (x, j) ∈ edgesOf R := by
        by_contra h
        exact hnb ⟨he, by simpa using h⟩
      obtain ⟨r', hr', hr'e⟩ := mem_edgesOf.mp hsw
      have := edge_unique hT (hR hr') hbT hr'e hx2
      rw [← this]; exact hr'
  intro d hd hdj
  exact key d (hlink r0 (hR hr0) d hd hr0j hdj)

theorem hasPlane_of_edge_left {d : Dual} {x y : Nat} (h : (x, y) ∈ d.edges) : HasPlane d x := by
  rw [mem_edges] at h
  rcases h with h | h | h <;> simp only [Prod.mk.injEq] at h
  · exact Or.inl h.1
  · exact Or.inr (Or.inl h.1)
  · exact Or.inr (Or.inr h.1)

theorem hasPlane_of_edge_right {d : Dual} {x y : Nat} (h : (x, y) ∈ d.edges) : HasPlane d y := by
  rw [mem_edges] at h
  rcases h with h | h | h <;> simp only [Prod.mk.injEq] at h
  · exact Or.inr (Or.inl h.2)
  · exact Or.inr (Or.inr h.2)
  · exact Or.inl h.2

/-- a plane of a triple has an edge of that triple leaving it -/
theorem edge_out_of_plane {d : Dual} {j : Nat} (h : HasPlane d j) : ∃ x, (j, x) ∈ d.edges := by
  rcases h with rfl | rfl | rfl
  · exact ⟨d.b, by simp [mem_edges]⟩
  · exact ⟨d.c, by simp [mem_edges]⟩
  · exact ⟨d.a, by simp [mem_edges]⟩

/-- **which planes survive a clip**: a plane of the cell occurs in the clipped triple list iff it is not an interior
plane of the removed region (for a fresh plane index `p`) -/
theorem plane_survives_iff {T R : List Dual} {succ : Nat → Nat} {p : Nat} (hT : (edgesOf T).Nodup) (hR : R ⊆ T)
    (hI : Inv succ R) (hlink : ∀ j, LinkConn T j) (hp : ∀ d ∈ T, ¬ HasPlane d p) {j : Nat} (hjT : ∃ d ∈ T, HasPlane d j) :
    (∃ d ∈ clipDuals T R p, HasPlane d j) ↔ ¬ ((∃ r ∈ R, HasPlane r j) ∧ succ j = j) := by
  constructor
  · rintro ⟨d, hd, hdj⟩ ⟨⟨r0, hr0, hr0j⟩, hj⟩
    unfold clipDuals at hd
    rw [List.mem_append] at hd
    rcases hd with hd | hd
    · -- a kept triple at an interior plane: impossible
      rw [List.mem_filter] at hd
      have hdR := interior_gone hT hR hI.1 hj (hlink j) hr0 hr0j d hd.1 hdj
      have := of_decide_eq_true hd.2 d hdR
      exact this rfl
    · -- a new triple (x, y, p) with (x, y) on the boundary
      rw [List.mem_map] at hd
      obtain ⟨⟨x, y⟩, hb, rfl⟩ := hd
      obtain ⟨_, hin, _⟩ := bdry_cycles_of_inv hI
      rcases hdj with h | h | h <;> simp only [newTri] at h
      · subst h; exact no_bdry_out hI.1 hj y hb
      · -- `y` has an incoming boundary edge, hence an outgoing one
        subst h
        obtain ⟨_, _, hbal⟩ := bdry_cycles_of_inv hI
        obtain ⟨z, hz⟩ := (hbal j).2 ⟨x, hb⟩
        exact no_bdry_out hI.1 hj z hz
      · subst h
        obtain ⟨d0, hd0, hd0j⟩ := hjT
        exact hp d0 hd0 hd0j
  · intro hni
    obtain ⟨d0, hd0, hd0j⟩ := hjT
    by_cases hall : ∀ d ∈ T, HasPlane d j → d ∈ R
    · -- every triple at `j` is removed: `j` is a plane of `R`, not interior, so it is on the boundary cycle
      have hjR : ∃ r ∈ R, HasPlane r j := ⟨d0, hall d0 hd0 hd0j, hd0j⟩
      have hsj : succ j ≠ j := fun h => hni ⟨hjR, h⟩
      have hb : (j, succ j) ∈ bdry R := (hI.1 j (succ j)).1 ⟨rfl, fun h => hsj h.symm⟩
      refine ⟨newTri p (j, succ j), ?_, Or.inl rfl⟩
      unfold clipDuals
      exact List.mem_append_right _ (List.mem_map.mpr ⟨(j, succ j), hb, rfl⟩)
    · push Not at hall
      obtain ⟨d, hd, hdj, hdR⟩ := hall
      refine ⟨d, ?_, hdj⟩
      unfold clipDuals
      refine List.mem_append_left _ (List.mem_filter.mpr ⟨hd, decide_eq_true ?_⟩)
      intro r hr h
      exact hdR (h ▸ hr)

/-- the fresh plane occurs in the clipped surface as soon as something was removed with a non-empty boundary -/
theorem new_plane_present {T R : List Dual} {p : Nat} {e : Nat × Nat} (he : e ∈ bdry R) :
    ∃ d ∈ clipDuals T R p, HasPlane d p := by
  refine ⟨newTri p e, ?_, Or.inr (Or.inr rfl)⟩
  unfold clipDuals
  exact List.mem_append_right _ (List.mem_map.mpr ⟨e, he, rfl⟩)

/-- **Euler bookkeeping of one clip**: `V` vertices / `F` faces of the cell (= triples / planes of the surface), `k`
removed vertices, `b` boundary edges (= new vertices), `m` interior planes (= faces that vanish).  If the removed region
is a disc (`2m + b = k + 2`, i.e. `V − E + F = 1` for it) then `V + 4 = 2F` — Euler's formula for a simple polytope, where
`E = 3V/2` — is preserved -/
theorem euler_arith (V F k b m : Nat) (hk : k ≤ V) (hm : m ≤ F) (hdisc : 2 * m + b = k + 2) (hE : V + 4 = 2 * F) :
    (V - k + b) + 4 = 2 * (F - m + 1) := by
  omega

/-- the start box: 8 vertices, 6 faces -/
example : 8 + 4 = 2 * 6 := rfl

end MVoro.Euler
