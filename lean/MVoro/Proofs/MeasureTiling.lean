/-
C02 (T02.2): the measure-theoretic statement.  For finitely many pairwise different generators in a finite-dimensional
real inner-product space (dimension 1, 2, 3, …) with any Haar measure `μ` (Lebesgue measure = length / area / volume):

* `sum_measure_eq`: the measures of the cells `Vor G i ∩ B` sum to the measure of the box `B` (any measurable set `B`);
* `cell_measure_pos`: every cell whose generator lies in a convex box with non-empty interior has positive measure —
  also for a generator on a face, an edge or a corner of the box;
* `overlap_null`: two different cells overlap in a null set (they meet inside the perpendicular bisector, a proper affine
  subspace).

With `VorSet.run_eq_voronoi` (the clipping loop returns `Vor G i ∩ B`) this is property C02 for the exact cell; the
identification of the code's tetrahedron sum with `μ` of that set is trusted-base item 2 of DESIGN §4 and is certified
per run (exact rational volumes sum exactly to the box volume).
-/
import MVoro.Proofs.VorSet
import Mathlib.MeasureTheory.Measure.Lebesgue.EqHaar
import Mathlib.MeasureTheory.Measure.OpenPos
import Mathlib.Geometry.Euclidean.PerpBisector
import Mathlib.Analysis.Convex.Topology
import Mathlib.MeasureTheory.Measure.Haar.InnerProductSpace

namespace MVoro.MeasureTiling
open MVoro.VorSet MeasureTheory Set

set_option linter.unusedSectionVars false

variable {E : Type*} [NormedAddCommGroup E] [InnerProductSpace ℝ E] [FiniteDimensional ℝ E]
  [MeasurableSpace E] [BorelSpace E]

/-- a cell is closed -/
theorem isClosed_Vor {ι : Type*} (G : ι → E) (i : ι) : IsClosed (Vor G i) := by
  have : Vor G i = ⋂ j, {x | dist x (G i) ≤ dist x (G j)} := by
    ext x; simp [Vor]
  rw [this]
  exact isClosed_iInter fun j => isClosed_le (continuous_id.dist continuous_const) (continuous_id.dist continuous_const)

theorem measurableSet_Vor {ι : Type*} (G : ι → E) (i : ι) : MeasurableSet (Vor G i) :=
  (isClosed_Vor G i).measurableSet

/-- two cells of different generators meet in a null set -/
theorem overlap_null {ι : Type*} (G : ι → E) (μ : Measure E) [μ.IsAddHaarMeasure] {i j : ι} (h : G i ≠ G j) :
    μ (Vor G i ∩ Vor G j) = 0 := by
  have hsub : Vor G i ∩ Vor G j ⊆ (AffineSubspace.perpBisector (G i) (G j) : Set E) := by
    intro x hx
    have := overlap_on_bisector G i j hx
    exact AffineSubspace.mem_perpBisector_iff_dist_eq.mpr this
  have hne : AffineSubspace.perpBisector (G i) (G j) ≠ ⊤ := by
    rw [Ne, AffineSubspace.perpBisector_eq_top]; exact h
  exact measure_mono_null hsub (Measure.addHaar_affineSubspace μ _ hne)

/-- **C02**: the measures of the cells sum to the measure of the box -/
theorem sum_measure_eq {ι : Type*} [Fintype ι] [Nonempty ι] (G : ι → E) (hG : Function.Injective G)
    (μ : Measure E) [μ.IsAddHaarMeasure] (B : Set E) (hB : MeasurableSet B) :
    ∑ i, μ (Vor G i ∩ B) = μ B := by
  have hcov : B = ⋃ i, (Vor G i ∩ B) := by
    ext x
    constructor
    · intro hx
      obtain ⟨i, hi⟩ := cover G x
      exact mem_iUnion.mpr ⟨i, hi, hx⟩
    · intro hx
      obtain ⟨i, hi⟩ := mem_iUnion.mp hx
      exact hi.2
  have hdis : Pairwise (Function.onFun (AEDisjoint μ) fun i => Vor G i ∩ B) := by
    intro i j hij
    have hne : G i ≠ G j := fun h => hij (hG h)
    show μ ((Vor G i ∩ B) ∩ (Vor G j ∩ B)) = 0
    refine measure_mono_null ?_ (overlap_null G μ hne)
    intro x hx
    exact ⟨hx.1.1, hx.2.1⟩
  have hmeas : ∀ i, NullMeasurableSet (Vor G i ∩ B) μ :=
    fun i => ((measurableSet_Vor G i).inter hB).nullMeasurableSet
  conv_rhs => rw [hcov]
  rw [measure_iUnion₀ hdis hmeas, tsum_fintype]

/-- a ball around the generator of half the distance to the nearest other generator lies inside its cell -/
theorem ball_subset_Vor {ι : Type*} (G : ι → E) (i : ι) {r : ℝ} (hr : ∀ j, G j ≠ G i → 2 * r ≤ dist (G i) (G j)) :
    Metric.ball (G i) r ⊆ Vor G i := by
  intro x hx j
  rw [Metric.mem_ball] at hx
  by_cases h : G j = G i
  · rw [h]
  · have h1 := hr j h
    have h2 : dist (G i) (G j) ≤ dist (G i) x + dist x (G j) := dist_triangle _ _ _
    rw [dist_comm (G i) x] at h2
    linarith

/-- **C02**: every cell whose generator lies in a convex box with non-empty interior has positive measure (generators on
the boundary of the box included) -/
theorem cell_measure_pos {ι : Type*} [Fintype ι] (G : ι → E)
    (μ : Measure E) [μ.IsAddHaarMeasure] (B : Set E) (hconv : Convex ℝ B) (hint : (interior B).Nonempty)
    (i : ι) (hi : G i ∈ B) : 0 < μ (Vor G i ∩ B) := by
  classical
  -- a radius below half the distance to every other generator
  obtain ⟨r, hr0, hr⟩ : ∃ r : ℝ, 0 < r ∧ ∀ j, G j ≠ G i → 2 * r ≤ dist (G i) (G j) := by
    by_cases hne : (Finset.univ.filter fun j => G j ≠ G i).Nonempty
    · obtain ⟨j0, hj0, hmin⟩ := Finset.exists_min_image _ (fun j => dist (G i) (G j)) hne
      refine ⟨dist (G i) (G j0) / 2, ?_, ?_⟩
      · have : G j0 ≠ G i := (Finset.mem_filter.mp hj0).2
        have := dist_pos.mpr this.symm
        linarith
      · intro j hj
        have := hmin j (Finset.mem_filter.mpr ⟨Finset.mem_univ _, hj⟩)
        linarith
    · refine ⟨1, one_pos, ?_⟩
      intro j hj
      exact absurd ⟨j, Finset.mem_filter.mpr ⟨Finset.mem_univ _, hj⟩⟩ hne
  obtain ⟨c, hc⟩ := hint
  -- a point of the interior of the box inside that ball
  obtain ⟨t, ht0, ht1, htr⟩ : ∃ t : ℝ, 0 < t ∧ t ≤ 1 ∧ t * ‖c - G i‖ < r := by
    refine ⟨min 1 (r / (‖c - G i‖ + 1) / 2), ?_, min_le_left _ _, ?_⟩
    · have : 0 < r / (‖c - G i‖ + 1) / 2 := by positivity
      exact lt_min one_pos this
    · have hpos : 0 < ‖c - G i‖ + 1 := by positivity
      calc min 1 (r / (‖c - G i‖ + 1) / 2) * ‖c - G i‖ ≤ (r / (‖c - G i‖ + 1) / 2) * ‖c - G i‖ :=
            mul_le_mul_of_nonneg_right (min_le_right _ _) (norm_nonneg _)
        _ = r * (‖c - G i‖ / (‖c - G i‖ + 1)) / 2 := by ring
        _ ≤ r * 1 / 2 := by
            gcongr
            exact (div_le_one hpos).mpr (by linarith)
        _ < r := by linarith
  set y := G i + t • (c - G i) with hy
  have hyint : y ∈ interior B := hconv.add_smul_sub_mem_interior hi hc ⟨ht0, ht1⟩
  have hyball : y ∈ Metric.ball (G i) r := by
    rw [Metric.mem_ball, dist_eq_norm, hy, add_sub_cancel_left, norm_smul, Real.norm_eq_abs, abs_of_pos ht0]
    exact htr
  have hU : IsOpen (interior B ∩ Metric.ball (G i) r) := isOpen_interior.inter Metric.isOpen_ball
  have hpos : 0 < μ (interior B ∩ Metric.ball (G i) r) := hU.measure_pos μ ⟨y, hyint, hyball⟩
  refine lt_of_lt_of_le hpos (measure_mono ?_)
  intro x hx
  exact ⟨ball_subset_Vor G i hr hx.2, interior_subset hx.1⟩

/-- non-vacuity: two generators on the real line, the unit interval as box: lengths sum to 1, both cells have positive length -/
example : ∑ i : Fin 2, volume (Vor (![0, 1] : Fin 2 → ℝ) i ∩ Icc 0 1) = volume (Icc (0 : ℝ) 1) :=
  sum_measure_eq _ (by intro a b h; fin_cases a <;> fin_cases b <;> simp_all) volume _ measurableSet_Icc

example : 0 < volume (Vor (![0, 1] : Fin 2 → ℝ) 0 ∩ Icc 0 1) :=
  cell_measure_pos _ volume _ (convex_Icc 0 1)
    (by rw [interior_Icc]; exact ⟨1/2, by norm_num, by norm_num⟩) 0 (by simp)

end MVoro.MeasureTiling
