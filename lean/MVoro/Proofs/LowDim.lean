/-
C08 (T08.1): the input handling of the builders (`Oracle.normalise` = the axis normalisation block of
`build_internal` / `VoronoiIntegrator::build`, `Oracle.projectGen` = `Generator::new`) factors through the
active coordinates: two inputs that agree on the active coordinates of generators, anchor and width are
normalised to the SAME internal problem, whatever the unused coordinates hold.  Everything downstream
(`Oracle.buildCell`, candidates, planes) is a function of the normalised input only.
-/
import MVoro.Model.Oracle
namespace MVoro.LowDim
open MVoro MVoro.Oracle

/-- agreement of two vectors on the first `dim` coordinates -/
def AgreeOn (dim : Nat) (p q : Q3) : Prop :=
  p.x = q.x ∧ (2 ≤ dim → p.y = q.y) ∧ (3 ≤ dim → p.z = q.z)

theorem projectGen_indep (dim : Nat) (hd : dim = 1 ∨ dim = 2 ∨ dim = 3) (g g' : Q3) (h : AgreeOn dim g g') :
    projectGen dim g = projectGen dim g' := by
  obtain ⟨hx, hy, hz⟩ := h
  rcases hd with rfl | rfl | rfl
  · simp [projectGen, hx]
  · simp [projectGen, hx, hy (by omega)]
  · have := hy (by omega); have := hz (by omega)
    cases g; cases g'; simp_all [projectGen]

theorem normalise_indep (dim : Nat) (hd : dim = 1 ∨ dim = 2 ∨ dim = 3) (a a' w w' : Q3)
    (ha : AgreeOn dim a a') (hw : AgreeOn dim w w') :
    normalise dim a w = normalise dim a' w' := by
  obtain ⟨hax, hay, haz⟩ := ha
  obtain ⟨hwx, hwy, hwz⟩ := hw
  rcases hd with rfl | rfl | rfl
  · cases a; cases a'; cases w; cases w'; simp_all [normalise]
  · have := hay (by omega); have := hwy (by omega)
    cases a; cases a'; cases w; cases w'; simp_all [normalise]
  · have := hay (by omega); have := hwy (by omega); have := haz (by omega); have := hwz (by omega)
    cases a; cases a'; cases w; cases w'; simp_all [normalise]

/-- T08.1: the normalised internal problem depends only on the active coordinates -/
theorem norm_indep (t t' : TessIn) (hdim : t.dim = t'.dim) (hd : t.dim = 1 ∨ t.dim = 2 ∨ t.dim = 3)
    (hper : t.periodic = t'.periodic) (ha : AgreeOn t.dim t.anchor t'.anchor) (hw : AgreeOn t.dim t.width t'.width)
    (hsz : t.gens.size = t'.gens.size)
    (hg : ∀ i (h : i < t.gens.size), AgreeOn t.dim t.gens[i] (t'.gens[i]'(hsz ▸ h))) :
    t.norm = t'.norm := by
  have hn := normalise_indep t.dim hd _ _ _ _ ha hw
  have hgens : t.gens.map (projectGen t.dim) = t'.gens.map (projectGen t'.dim) := by
    rw [← hdim]
    apply Array.ext
    · simp [hsz]
    · intro i h1 h2
      simp only [Array.getElem_map]
      exact projectGen_indep t.dim hd _ _ (hg i (by simpa using h1))
  cases t; cases t'
  simp only [TessIn.norm] at *
  subst hdim hper
  simp_all

/-- unused coordinates of the normalised problem: generators at 0, box `[-1/2, 1/2]` -/
theorem norm_unused_1d (t : TessIn) (h : t.dim = 1) :
    t.norm.anchor.y = -1/2 ∧ t.norm.anchor.z = -1/2 ∧ t.norm.width.y = 1 ∧ t.norm.width.z = 1 ∧
    ∀ g ∈ t.norm.gens, g.y = 0 ∧ g.z = 0 := by
  refine ⟨?_, ?_, ?_, ?_, ?_⟩ <;> simp [TessIn.norm, normalise, h, projectGen]

theorem norm_unused_2d (t : TessIn) (h : t.dim = 2) :
    t.norm.anchor.z = -1/2 ∧ t.norm.width.z = 1 ∧ ∀ g ∈ t.norm.gens, g.z = 0 := by
  refine ⟨?_, ?_, ?_⟩ <;> simp [TessIn.norm, normalise, h, projectGen]

/-- non-vacuity: two different inputs (rubbish in y, z) with the same normal form -/
example : (TessIn.norm ⟨1, false, ⟨0, 7, -3⟩, ⟨2, 9, 1/3⟩, #[⟨1/2, 5, 5⟩, ⟨1, -8, 0⟩]⟩)
        = (TessIn.norm ⟨1, false, ⟨0, 0, 0⟩, ⟨2, 1, 1⟩, #[⟨1/2, 0, 0⟩, ⟨1, 0, 0⟩]⟩) := by
  simp [TessIn.norm, normalise, projectGen]

end MVoro.LowDim
