/-
T10.5 (DESIGN §6 C10): the exact in-sphere test only means "inside the circumsphere" for a vertex whose dual triple is
positively oriented.  `clip_by_plane` creates a vertex with dual `(cur, next, p)` for every edge `cur → next` of the boundary
cycle of the removed region.  This file proves that such a triple IS positively oriented — an algebraic fact about the two
determinants the code uses, for all integers (any commutative ordered ring), by a three-term Grassmann–Plücker relation.

Setting (all indices are neighbour positions; `g` the generator):
* the directed edge `a → b` lies on the boundary of the removed region: the vertex `(a, b, c)` on its left is REMOVED
  (exact decision: `inSphereDet g a b c p < 0` with `orient g a b c > 0`), the vertex `(b, a, d)` across the edge is KEPT
  (`inSphereDet g b a d p ≥ 0` with `orient g b a d > 0`);
* the cell was locally Delaunay at that edge before the clip: `d` is not strictly inside the circumsphere of `g a b c`
  (`inSphereDet g a b c d ≥ 0`) — the invariant every exact Voronoi cell satisfies (`VorSet`: each vertex's sphere is empty).
Then `orient g a b p > 0`, and the new vertex `(a, b, p)` is again locally Delaunay against the kept vertex `(b, a, d)`.
-/
import MVoro.Proofs.Misc
import Mathlib.Tactic.Ring
import Mathlib.Tactic.Linarith
import Mathlib.Tactic.Positivity
import Mathlib.Algebra.Order.Ring.Defs

namespace MVoro.Orientation
open MVoro Ref MVoro.InSphereProofs

section Ring
variable {α : Type} [CommRing α]

set_option maxRecDepth 65536 in
set_option maxHeartbeats 1000000 in
/-- three-term Grassmann–Plücker relation between the orientation and in-sphere determinants that share `g, a, b`
(the lifted coordinate may even be arbitrary: the identity holds with the squared norms replaced by free variables) -/
theorem grassmann_pluecker (g a b c d p : I3 α) :
    orient g a b p * inSphereDet g a b c d - orient g a b c * inSphereDet g a b p d
      + orient g a b d * inSphereDet g a b p c = 0 := by
  simp only [inSphereDet, orient, bigInt, det3, det2]
  generalize a.c0 - g.c0 = a0; generalize a.c1 - g.c1 = a1; generalize a.c2 - g.c2 = a2
  generalize b.c0 - g.c0 = b0; generalize b.c1 - g.c1 = b1; generalize b.c2 - g.c2 = b2
  generalize c.c0 - g.c0 = c0; generalize c.c1 - g.c1 = c1; generalize c.c2 - g.c2 = c2
  generalize d.c0 - g.c0 = d0; generalize d.c1 - g.c1 = d1; generalize d.c2 - g.c2 = d2
  generalize p.c0 - g.c0 = p0; generalize p.c1 - g.c1 = p1; generalize p.c2 - g.c2 = p2
  generalize a0 * a0 + a1 * a1 + a2 * a2 = na
  generalize b0 * b0 + b1 * b1 + b2 * b2 = nb
  generalize c0 * c0 + c1 * c1 + c2 * c2 = nc
  generalize d0 * d0 + d1 * d1 + d2 * d2 = nd
  generalize p0 * p0 + p1 * p1 + p2 * p2 = np
  ring

end Ring

section Ordered
variable {α : Type} [CommRing α] [LinearOrder α] [IsStrictOrderedRing α]

/-- **the new triple `(a, b, p)` is positively oriented** (and the old cell was in fact strictly Delaunay at the edge) -/
theorem new_triple_oriented (g a b c d p : I3 α)
    (hv : 0 < orient g a b c) (hw : 0 < orient g b a d)
    (hremoved : inSphereDet g a b c p < 0) (hkept : 0 ≤ inSphereDet g b a d p)
    (hdel : 0 ≤ inSphereDet g a b c d) :
    0 < orient g a b p ∧ 0 < inSphereDet g a b c d := by
  have gp := grassmann_pluecker g a b c d p
  -- rewrite everything in terms of the arguments order `g a b · ·`
  have e1 : orient g b a d = - orient g a b d := orient_swap_bc g a b d
  have e2 : inSphereDet g b a d p = - inSphereDet g a b d p := inSphereDet_swap_bc g a b d p
  have e3 : inSphereDet g a b p d = - inSphereDet g a b d p := inSphereDet_swap_dv g a b d p
  have e4 : inSphereDet g a b p c = - inSphereDet g a b c p := inSphereDet_swap_dv g a b c p
  rw [e3, e4] at gp
  rw [e1] at hw
  rw [e2] at hkept
  -- orient(gabp) * I(gabcd) = - orient(gabc) * I(gabdp) + orient(gabd) * I(gabcp)  with both products ≥ 0, the second > 0
  have t1 : 0 ≤ orient g a b c * (- inSphereDet g a b d p) := mul_nonneg hv.le hkept
  have t2 : 0 < orient g a b d * inSphereDet g a b c p := mul_pos_of_neg_of_neg (by linarith) hremoved
  have hprod : 0 < orient g a b p * inSphereDet g a b c d := by nlinarith
  rcases hdel.eq_or_lt with h0 | hpos
  · rw [← h0, mul_zero] at hprod; exact absurd hprod (lt_irrefl _)
  · refine ⟨?_, hpos⟩
    by_contra hneg
    have : orient g a b p * inSphereDet g a b c d ≤ 0 := mul_nonpos_of_nonpos_of_nonneg (not_lt.mp hneg) hpos.le
    exact absurd hprod (not_lt.mpr this)

omit [IsStrictOrderedRing α] in
/-- the new vertex `(a, b, p)` is locally Delaunay against the kept vertex `(b, a, d)` across the edge it inherits:
`d` is not strictly inside the circumsphere of `g a b p` -/
theorem new_vertex_delaunay_vs_kept (g a b d p : I3 α) (hkept : 0 ≤ inSphereDet g b a d p) :
    0 ≤ inSphereDet g a b p d := by
  have e2 : inSphereDet g b a d p = - inSphereDet g a b d p := inSphereDet_swap_bc g a b d p
  have e3 : inSphereDet g a b p d = - inSphereDet g a b d p := inSphereDet_swap_dv g a b d p
  rw [e3]; rw [e2] at hkept; exact hkept

end Ordered

/-- non-vacuity: the generator at the origin of a cube corner configuration -/
example : let g : I3 Int := ⟨0, 0, 0⟩; let a : I3 Int := ⟨4, 0, 0⟩; let b : I3 Int := ⟨0, 4, 0⟩
    let c : I3 Int := ⟨0, 0, 4⟩; let d : I3 Int := ⟨0, 0, -4⟩; let p : I3 Int := ⟨1, 1, 3⟩
    0 < orient g a b c ∧ 0 < orient g b a d ∧ inSphereDet g a b c p < 0 ∧ 0 ≤ inSphereDet g b a d p ∧ 0 ≤ inSphereDet g a b c d ∧
      0 < orient g a b p := by decide

#print axioms MVoro.Orientation.new_triple_oriented
end MVoro.Orientation
