/-
Signed decomposition of a closed triangulated surface into apex tetrahedra:
closure (Σ vector areas = 0), apex independence of volume / first / second moments,
divergence identity, and the fan-splitting identities within a face.
-/
import MVoro.Model.Num
import Mathlib.Data.Real.Basic
import Mathlib.Tactic.Ring
import Mathlib.Tactic.Linarith
import Mathlib.Tactic.LinearCombination
import Mathlib.Tactic.NormNum
import Mathlib.Algebra.BigOperators.Group.List.Basic
import Mathlib.Data.List.Nodup
import Mathlib.Data.List.Perm.Basic
import Mathlib.Data.List.Rotate

namespace MVoro.Surface

open MVoro

set_option linter.unusedSimpArgs false
set_option linter.unusedVariables false

/-! ### component lemmas for `V3 ℝ` -/

@[simp] theorem add_x (a b : V3 ℝ) : (a + b).x = a.x + b.x := rfl
@[simp] theorem add_y (a b : V3 ℝ) : (a + b).y = a.y + b.y := rfl
@[simp] theorem add_z (a b : V3 ℝ) : (a + b).z = a.z + b.z := rfl
@[simp] theorem sub_x (a b : V3 ℝ) : (a - b).x = a.x - b.x := rfl
@[simp] theorem sub_y (a b : V3 ℝ) : (a - b).y = a.y - b.y := rfl
@[simp] theorem sub_z (a b : V3 ℝ) : (a - b).z = a.z - b.z := rfl
@[simp] theorem smul_x (k : ℝ) (a : V3 ℝ) : (V3.smul k a).x = k * a.x := rfl
@[simp] theorem smul_y (k : ℝ) (a : V3 ℝ) : (V3.smul k a).y = k * a.y := rfl
@[simp] theorem smul_z (k : ℝ) (a : V3 ℝ) : (V3.smul k a).z = k * a.z := rfl
@[simp] theorem cross_x (a b : V3 ℝ) : (V3.cross a b).x = a.y * b.z - b.y * a.z := rfl
@[simp] theorem cross_y (a b : V3 ℝ) : (V3.cross a b).y = a.z * b.x - b.z * a.x := rfl
@[simp] theorem cross_z (a b : V3 ℝ) : (V3.cross a b).z = a.x * b.y - b.x * a.y := rfl
theorem dot_def (a b : V3 ℝ) : V3.dot a b = a.x * b.x + a.y * b.y + a.z * b.z := rfl

theorem v3_ext {a b : V3 ℝ} (hx : a.x = b.x) (hy : a.y = b.y) (hz : a.z = b.z) : a = b := by
  cases a; cases b; simp_all

/-- the zero vector (no `Zero (V3 ℝ)` instance is assumed) -/
def zero3 : V3 ℝ := ⟨0, 0, 0⟩

/-! ### definitions -/

/-- an oriented triangle -/
structure Tri where
  a : V3 ℝ
  b : V3 ℝ
  c : V3 ℝ

/-- sum over the three directed edges of a triangle of an edge function -/
def edgeSum {β : Type} [AddCommMonoid β] (φ : V3 ℝ → V3 ℝ → β) (t : Tri) : β :=
  φ t.a t.b + φ t.b t.c + φ t.c t.a

/-- A list of oriented triangles is a closed surface if every antisymmetric edge function sums
to zero over it (each directed edge is cancelled by its reverse). -/
def ClosedSurf (T : List Tri) : Prop :=
  ∀ φ : V3 ℝ → V3 ℝ → ℝ, (∀ p q, φ p q = - φ q p) → (T.map (edgeSum φ)).sum = 0

noncomputable def vecArea (t : Tri) : V3 ℝ :=
  V3.smul (1/2) (V3.cross (t.b - t.a) (t.c - t.a))

/-- `= signed_volume_tet(a, b, c, g)` of the code: `det[b-a, c-a, g-a]/6` -/
noncomputable def tetVol (g : V3 ℝ) (t : Tri) : ℝ :=
  V3.dot (g - t.a) (V3.cross (t.b - t.a) (t.c - t.a)) / 6

noncomputable def triCentroid (t : Tri) : V3 ℝ := V3.smul (1/3) (t.a + t.b + t.c)

/-! ### list helpers -/

theorem sum_map_sub' {ι : Type} (l : List ι) (f h : ι → ℝ) :
    (l.map (fun t => f t - h t)).sum = (l.map f).sum - (l.map h).sum := by
  induction l with
  | nil => simp
  | cons a l ih => simp only [List.map_cons, List.sum_cons, ih]; ring

theorem sum_map_mul_left' {ι : Type} (l : List ι) (k : ℝ) (f : ι → ℝ) :
    (l.map (fun t => k * f t)).sum = k * (l.map f).sum := by
  induction l with
  | nil => simp
  | cons a l ih => simp only [List.map_cons, List.sum_cons, ih]; ring

/-- vector sum of a list with explicit zero -/
def vsum (l : List (V3 ℝ)) : V3 ℝ := l.foldr (· + ·) zero3

theorem vsum_x (l : List (V3 ℝ)) : (vsum l).x = (l.map V3.x).sum := by
  induction l with
  | nil => rfl
  | cons a l ih =>
    have : vsum (a :: l) = a + vsum l := rfl
    rw [this, add_x, ih]; rfl
theorem vsum_y (l : List (V3 ℝ)) : (vsum l).y = (l.map V3.y).sum := by
  induction l with
  | nil => rfl
  | cons a l ih =>
    have : vsum (a :: l) = a + vsum l := rfl
    rw [this, add_y, ih]; rfl
theorem vsum_z (l : List (V3 ℝ)) : (vsum l).z = (l.map V3.z).sum := by
  induction l with
  | nil => rfl
  | cons a l ih =>
    have : vsum (a :: l) = a + vsum l := rfl
    rw [this, add_z, ih]; rfl

/-! ### consequences of closedness -/

/-- a per-triangle quantity that is an antisymmetric edge sum vanishes in total -/
theorem sum_eq_zero_of_edge {T : List Tri} (h : ClosedSurf T) (f : Tri → ℝ)
    (φ : V3 ℝ → V3 ℝ → ℝ) (hφ : ∀ p q, φ p q = - φ q p) (hf : ∀ t, f t = edgeSum φ t) :
    (T.map f).sum = 0 := by
  have : f = edgeSum φ := funext hf
  rw [this]; exact h φ hφ

/-- if the difference of two per-triangle quantities is an antisymmetric edge sum,
their totals over a closed surface agree -/
theorem sum_eq_of_cone {T : List Tri} (h : ClosedSurf T) (f f' : Tri → ℝ)
    (φ : V3 ℝ → V3 ℝ → ℝ) (hφ : ∀ p q, φ p q = - φ q p)
    (hf : ∀ t, f t - f' t = edgeSum φ t) :
    (T.map f).sum = (T.map f').sum := by
  have h0 := sum_eq_zero_of_edge h (fun t => f t - f' t) φ hφ hf
  rw [sum_map_sub'] at h0
  linarith

/-- `(b-a)×(c-a) = a×b + b×c + c×a` -/
theorem cross_edge_expand (a b c : V3 ℝ) :
    V3.cross (b - a) (c - a) = V3.cross a b + V3.cross b c + V3.cross c a := by
  apply v3_ext <;> simp only [cross_x, cross_y, cross_z, sub_x, sub_y, sub_z, add_x, add_y, add_z]
    <;> ring

theorem cross_antisymm_dot (n p q : V3 ℝ) :
    V3.dot n (V3.cross p q) = - V3.dot n (V3.cross q p) := by
  simp only [dot_def, cross_x, cross_y, cross_z]; ring

/-- closure, dotted with an arbitrary vector `n` -/
theorem closure_dot {T : List Tri} (h : ClosedSurf T) (n : V3 ℝ) :
    (T.map (fun t => V3.dot n (vecArea t))).sum = 0 := by
  refine sum_eq_zero_of_edge h _ (fun p q => (1/2) * V3.dot n (V3.cross p q)) ?_ ?_
  · intro p q; rw [cross_antisymm_dot]; ring
  · intro t
    simp only [edgeSum, vecArea, dot_def, cross_x, cross_y, cross_z, sub_x, sub_y, sub_z,
      smul_x, smul_y, smul_z]
    ring

theorem closure_x {T : List Tri} (h : ClosedSurf T) : (T.map (fun t => (vecArea t).x)).sum = 0 := by
  have := closure_dot h ⟨1, 0, 0⟩
  simpa [dot_def] using this
theorem closure_y {T : List Tri} (h : ClosedSurf T) : (T.map (fun t => (vecArea t).y)).sum = 0 := by
  have := closure_dot h ⟨0, 1, 0⟩
  simpa [dot_def] using this
theorem closure_z {T : List Tri} (h : ClosedSurf T) : (T.map (fun t => (vecArea t).z)).sum = 0 := by
  have := closure_dot h ⟨0, 0, 1⟩
  simpa [dot_def] using this

/-- **closure**: the vector areas of a closed surface sum to zero -/
theorem closure {T : List Tri} (h : ClosedSurf T) :
    (T.map vecArea).foldr (· + ·) zero3 = zero3 := by
  change vsum (T.map vecArea) = zero3
  apply v3_ext
  · rw [vsum_x, List.map_map]; exact closure_x h
  · rw [vsum_y, List.map_map]; exact closure_y h
  · rw [vsum_z, List.map_map]; exact closure_z h

/-- per-triangle: change of apex is an edge sum -/
theorem tetVol_sub (g g' : V3 ℝ) (t : Tri) :
    tetVol g t - tetVol g' t =
      edgeSum (fun p q => V3.dot (g - g') (V3.cross p q) / 6) t := by
  simp only [edgeSum, tetVol, dot_def, cross_x, cross_y, cross_z, sub_x, sub_y, sub_z]
  ring

/-- **apex independence of the signed volume** -/
theorem volume_apex_indep {T : List Tri} (h : ClosedSurf T) (g g' : V3 ℝ) :
    (T.map (tetVol g)).sum = (T.map (tetVol g')).sum := by
  refine sum_eq_of_cone h _ _ (fun p q => V3.dot (g - g') (V3.cross p q) / 6) ?_
    (tetVol_sub g g')
  intro p q; rw [cross_antisymm_dot]; ring

/-- per-triangle divergence identity (no closedness needed) -/
theorem divergence_tri (g : V3 ℝ) (t : Tri) :
    (1/3) * V3.dot (vecArea t) (triCentroid t - g) = - tetVol g t := by
  simp only [vecArea, triCentroid, tetVol, dot_def, cross_x, cross_y, cross_z, sub_x, sub_y, sub_z,
    add_x, add_y, add_z, smul_x, smul_y, smul_z]
  ring

/-- **divergence**: `(1/3) Σ A_t · (c_t - g) = - Σ tetVol g t`.  With `tetVol` as defined
(`det[b-a, c-a, g-a]/6`), an *outward* oriented surface with `g` inside gives negative `tetVol`;
the signed volume is positive for inward-pointing `(b-a)×(c-a)` (normal pointing towards `g`). -/
theorem divergence (T : List Tri) (g : V3 ℝ) :
    (1/3) * (T.map (fun t => V3.dot (vecArea t) (triCentroid t - g))).sum
      = - (T.map (tetVol g)).sum := by
  rw [← sum_map_mul_left']
  have : (fun t => (1/3) * V3.dot (vecArea t) (triCentroid t - g)) = fun t => - tetVol g t :=
    funext (divergence_tri g)
  rw [this]
  induction T with
  | nil => simp
  | cons a l ih => simp only [List.map_cons, List.sum_cons, ih]; ring

/-! ### combinatorial source of closedness -/

/-- triangle from vertex labels -/
def toTri (pos : Nat → V3 ℝ) (f : Nat × Nat × Nat) : Tri := ⟨pos f.1, pos f.2.1, pos f.2.2⟩

/-- the three directed edges of a labelled triangle -/
def edges (f : Nat × Nat × Nat) : List (Nat × Nat) := [(f.1, f.2.1), (f.2.1, f.2.2), (f.2.2, f.1)]

theorem sum_edges (pos : Nat → V3 ℝ) (φ : V3 ℝ → V3 ℝ → ℝ) (L : List (Nat × Nat × Nat)) :
    ((L.map (toTri pos)).map (edgeSum φ)).sum
      = ((L.flatMap edges).map (fun e => φ (pos e.1) (pos e.2))).sum := by
  induction L with
  | nil => simp
  | cons f L ih =>
    simp only [List.map_cons, List.sum_cons, List.flatMap_cons, List.map_append, List.sum_append, ih]
    simp only [edges, edgeSum, toTri, List.map_cons, List.map_nil, List.sum_cons, List.sum_nil]
    ring

/-- variant: the directed-edge list is a permutation of its reversal -/
theorem closedSurf_of_perm (pos : Nat → V3 ℝ) (L : List (Nat × Nat × Nat))
    (hp : (L.flatMap edges).Perm ((L.flatMap edges).map Prod.swap)) :
    ClosedSurf (L.map (toTri pos)) := by
  intro φ hφ
  rw [sum_edges]
  generalize L.flatMap edges = E at hp
  have h1 := (hp.map (fun e : Nat × Nat => φ (pos e.1) (pos e.2))).sum_eq
  rw [List.map_map] at h1
  have h2 : ((fun e : Nat × Nat => φ (pos e.1) (pos e.2)) ∘ Prod.swap)
      = fun e => (-1) * φ (pos e.1) (pos e.2) := by
    funext e
    simp only [Function.comp, Prod.fst_swap, Prod.snd_swap]
    rw [hφ]; ring
  rw [h2, sum_map_mul_left'] at h1
  linarith

/-- **closedness from edge pairing**: if the directed edges of the labelled triangles are pairwise
distinct and every directed edge occurs reversed as well, the surface is closed.
(The hypothesis "no loop edge" is not needed: an antisymmetric function vanishes on loops.) -/
theorem closedSurf_of_paired (pos : Nat → V3 ℝ) (L : List (Nat × Nat × Nat))
    (hnd : (L.flatMap edges).Nodup)
    (hsw : ∀ e ∈ L.flatMap edges, e.swap ∈ L.flatMap edges) :
    ClosedSurf (L.map (toTri pos)) := by
  apply closedSurf_of_perm
  have hinj : Function.Injective (Prod.swap : Nat × Nat → Nat × Nat) := Prod.swap_injective
  rw [List.perm_ext_iff_of_nodup hnd (hnd.map hinj)]
  intro e
  constructor
  · intro he
    exact List.mem_map.mpr ⟨e.swap, hsw e he, Prod.swap_swap e⟩
  · intro he
    obtain ⟨e', he', rfl⟩ := List.mem_map.mp he
    exact hsw e' he'

/-- the four outward faces of the tetrahedron with labels 0..3 -/
def tetFaces : List (Nat × Nat × Nat) := [(0,2,1), (0,1,3), (1,2,3), (0,3,2)]

/-- non-vacuity of `closedSurf_of_paired` -/
example : (tetFaces.flatMap edges).Nodup ∧
    (∀ e ∈ tetFaces.flatMap edges, e.swap ∈ tetFaces.flatMap edges) ∧
    (∀ e ∈ tetFaces.flatMap edges, e.1 ≠ e.2) := by decide

theorem tetFaces_closed (pos : Nat → V3 ℝ) : ClosedSurf (tetFaces.map (toTri pos)) :=
  closedSurf_of_paired pos tetFaces (by decide) (by decide)

/-- unit tetrahedron positions -/
def unitPos : Nat → V3 ℝ
  | 0 => ⟨0, 0, 0⟩
  | 1 => ⟨1, 0, 0⟩
  | 2 => ⟨0, 1, 0⟩
  | _ => ⟨0, 0, 1⟩

/-- the unit tetrahedron with 4 outward-oriented faces -/
def unitTet : List Tri := tetFaces.map (toTri unitPos)

example : ClosedSurf unitTet := tetFaces_closed unitPos

/-- the outward vector areas of the unit tetrahedron -/
example : unitTet.map vecArea =
    [⟨0, 0, -1/2⟩, ⟨0, -1/2, 0⟩, ⟨1/2, 1/2, 1/2⟩, ⟨-1/2, 0, 0⟩] := by
  simp only [unitTet, tetFaces, toTri, unitPos, vecArea, List.map_cons, List.map_nil]
  refine List.cons_eq_cons.mpr ⟨?_, List.cons_eq_cons.mpr ⟨?_, List.cons_eq_cons.mpr ⟨?_,
    List.cons_eq_cons.mpr ⟨?_, rfl⟩⟩⟩⟩ <;>
  · apply v3_ext <;> simp only [smul_x, smul_y, smul_z, cross_x, cross_y, cross_z, sub_x, sub_y, sub_z]
      <;> norm_num

/-- **sign convention**: with outward-oriented faces the apex-tet sum is `-volume`
(unit tetrahedron: volume `1/6`), for every apex `g`. -/
example (g : V3 ℝ) : (unitTet.map (tetVol g)).sum = -(1/6) := by
  simp only [unitTet, tetFaces, toTri, unitPos, tetVol, List.map_cons, List.map_nil, List.sum_cons,
    List.sum_nil, dot_def, cross_x, cross_y, cross_z, sub_x, sub_y, sub_z]
  ring

/-- hence the divergence sum `(1/3) Σ A·(c - g)` is `+volume` for outward orientation -/
example (g : V3 ℝ) :
    (1/3) * (unitTet.map (fun t => V3.dot (vecArea t) (triCentroid t - g))).sum = 1/6 := by
  rw [divergence]
  simp only [unitTet, tetFaces, toTri, unitPos, tetVol, List.map_cons, List.map_nil, List.sum_cons,
    List.sum_nil, dot_def, cross_x, cross_y, cross_z, sub_x, sub_y, sub_z]
  ring

/-! ### first and second moments (C14): cone identities and apex independence -/

/-- signed volume of the tetrahedron `(v0,v1,v2,v3)`: `det[v1-v0, v2-v0, v3-v0]/6` (alternating) -/
noncomputable def vol4 (v0 v1 v2 v3 : V3 ℝ) : ℝ :=
  V3.dot (v3 - v0) (V3.cross (v1 - v0) (v2 - v0)) / 6

theorem tetVol_eq_vol4 (g : V3 ℝ) (t : Tri) : tetVol g t = vol4 t.a t.b t.c g := rfl

/-- `∫ x dV` over the signed tetrahedron -/
noncomputable def m1_4 (v0 v1 v2 v3 : V3 ℝ) : V3 ℝ :=
  V3.smul (vol4 v0 v1 v2 v3 / 4) (v0 + v1 + v2 + v3)

/-- `∫ (u·x)(w·x) dV` over the signed tetrahedron -/
noncomputable def m2_4 (u w v0 v1 v2 v3 : V3 ℝ) : ℝ :=
  vol4 v0 v1 v2 v3 / 20 *
    (V3.dot u v0 * V3.dot w v0 + V3.dot u v1 * V3.dot w v1 + V3.dot u v2 * V3.dot w v2
      + V3.dot u v3 * V3.dot w v3
      + V3.dot u (v0 + v1 + v2 + v3) * V3.dot w (v0 + v1 + v2 + v3))

/-- first moment of the apex tetrahedron `(g,a,b,c)` with signed volume `tetVol g t` -/
noncomputable def m1 (g : V3 ℝ) (t : Tri) : V3 ℝ :=
  V3.smul (tetVol g t / 4) (g + t.a + t.b + t.c)

/-- second moment w.r.t. the linear functionals `u·x`, `w·x` -/
noncomputable def m2 (g : V3 ℝ) (t : Tri) (u w : V3 ℝ) : ℝ :=
  tetVol g t / 20 *
    (V3.dot u g * V3.dot w g + V3.dot u t.a * V3.dot w t.a + V3.dot u t.b * V3.dot w t.b
      + V3.dot u t.c * V3.dot w t.c
      + V3.dot u (g + t.a + t.b + t.c) * V3.dot w (g + t.a + t.b + t.c))

theorem m1_eq_m1_4 (g : V3 ℝ) (t : Tri) : m1 g t = m1_4 t.a t.b t.c g := by
  apply v3_ext <;>
    simp only [m1, m1_4, tetVol_eq_vol4, smul_x, smul_y, smul_z, add_x, add_y, add_z] <;> ring

theorem m2_eq_m2_4 (g : V3 ℝ) (t : Tri) (u w : V3 ℝ) : m2 g t u w = m2_4 u w t.a t.b t.c g := by
  simp only [m2, m2_4, tetVol_eq_vol4, dot_def, add_x, add_y, add_z]; ring

theorem vol4_swap (v0 v1 p q : V3 ℝ) : vol4 v0 v1 p q = - vol4 v0 v1 q p := by
  simp only [vol4, dot_def, cross_x, cross_y, cross_z, sub_x, sub_y, sub_z]; ring

theorem m1_4_swap (u v0 v1 p q : V3 ℝ) :
    V3.dot u (m1_4 v0 v1 p q) = - V3.dot u (m1_4 v0 v1 q p) := by
  simp only [m1_4, vol4_swap v0 v1 p q, dot_def, smul_x, smul_y, smul_z, add_x, add_y, add_z]; ring

theorem m2_4_swap (u w v0 v1 p q : V3 ℝ) : m2_4 u w v0 v1 p q = - m2_4 u w v0 v1 q p := by
  simp only [m2_4, vol4_swap v0 v1 p q, dot_def, add_x, add_y, add_z]; ring

/-- cone identity for the volume: `[a,b,c,g] - [a,b,c,g'] = Σ_edges [g',g,p,q]` -/
theorem vol4_cone (g g' a b c : V3 ℝ) :
    vol4 a b c g - vol4 a b c g' = vol4 g' g a b + vol4 g' g b c + vol4 g' g c a := by
  simp only [vol4, dot_def, cross_x, cross_y, cross_z, sub_x, sub_y, sub_z]; ring

set_option maxRecDepth 65536 in
/-- cone identity for the first moment (dotted with an arbitrary `u`) -/
theorem m1_4_cone (u g g' a b c : V3 ℝ) :
    V3.dot u (m1_4 a b c g) - V3.dot u (m1_4 a b c g')
      = V3.dot u (m1_4 g' g a b) + V3.dot u (m1_4 g' g b c) + V3.dot u (m1_4 g' g c a) := by
  simp only [m1_4, vol4, dot_def, cross_x, cross_y, cross_z, sub_x, sub_y, sub_z,
    smul_x, smul_y, smul_z, add_x, add_y, add_z]
  ring

theorem dot_add (u a b : V3 ℝ) : V3.dot u (a + b) = V3.dot u a + V3.dot u b := by
  simp only [dot_def, add_x, add_y, add_z]; ring

/-- affine dependency of five points weighted by the signed volumes of the opposite tetrahedra,
evaluated on a linear functional -/
theorem vol4_cone_dot (u g g' a b c : V3 ℝ) :
    vol4 a b c g * V3.dot u g' - vol4 a b c g' * V3.dot u g
      = vol4 g' g a b * V3.dot u c + vol4 g' g b c * V3.dot u a + vol4 g' g c a * V3.dot u b := by
  simp only [vol4, dot_def, cross_x, cross_y, cross_z, sub_x, sub_y, sub_z]; ring

/-- cone identity for the second moment -/
theorem m2_4_cone (u w g g' a b c : V3 ℝ) :
    m2_4 u w a b c g - m2_4 u w a b c g'
      = m2_4 u w g' g a b + m2_4 u w g' g b c + m2_4 u w g' g c a := by
  simp only [m2_4, dot_add]
  linear_combination
    ((V3.dot u a * V3.dot w a + V3.dot u b * V3.dot w b + V3.dot u c * V3.dot w c
        + V3.dot u g * V3.dot w g + V3.dot u g' * V3.dot w g'
        + (V3.dot u a + V3.dot u b + V3.dot u c + V3.dot u g + V3.dot u g')
          * (V3.dot w a + V3.dot w b + V3.dot w c + V3.dot w g + V3.dot w g')) / 20)
      * vol4_cone g g' a b c
    - ((V3.dot u a + V3.dot u b + V3.dot u c + V3.dot u g + V3.dot u g') / 20)
      * vol4_cone_dot w g g' a b c
    - ((V3.dot w a + V3.dot w b + V3.dot w c + V3.dot w g + V3.dot w g') / 20)
      * vol4_cone_dot u g g' a b c

/-- cone identity, triangle form, volume -/
theorem tetVol_cone (g g' : V3 ℝ) (t : Tri) :
    tetVol g t - tetVol g' t = edgeSum (fun p q => vol4 g' g p q) t := by
  simp only [tetVol_eq_vol4, edgeSum]; exact vol4_cone g g' t.a t.b t.c

/-- cone identity, triangle form, first moment -/
theorem m1_cone (u g g' : V3 ℝ) (t : Tri) :
    V3.dot u (m1 g t) - V3.dot u (m1 g' t)
      = edgeSum (fun p q => V3.dot u (m1_4 g' g p q)) t := by
  simp only [m1_eq_m1_4, edgeSum]; exact m1_4_cone u g g' t.a t.b t.c

/-- cone identity, triangle form, second moment -/
theorem m2_cone (u w g g' : V3 ℝ) (t : Tri) :
    m2 g t u w - m2 g' t u w = edgeSum (fun p q => m2_4 u w g' g p q) t := by
  simp only [m2_eq_m2_4, edgeSum]; exact m2_4_cone u w g g' t.a t.b t.c

/-- apex independence of the volume, via the cone identity (same statement as
`volume_apex_indep`) -/
theorem volume_apex_indep' {T : List Tri} (h : ClosedSurf T) (g g' : V3 ℝ) :
    (T.map (tetVol g)).sum = (T.map (tetVol g')).sum :=
  sum_eq_of_cone h _ _ (fun p q => vol4 g' g p q) (fun p q => vol4_swap g' g p q)
    (tetVol_cone g g')

/-- **apex independence of the first moment**, dotted with an arbitrary vector -/
theorem m1_apex_indep_dot {T : List Tri} (h : ClosedSurf T) (u g g' : V3 ℝ) :
    (T.map (fun t => V3.dot u (m1 g t))).sum = (T.map (fun t => V3.dot u (m1 g' t))).sum :=
  sum_eq_of_cone h _ _ (fun p q => V3.dot u (m1_4 g' g p q)) (fun p q => m1_4_swap u g' g p q)
    (m1_cone u g g')

/-- **apex independence of the first moment** (vector sum) -/
theorem m1_apex_indep {T : List Tri} (h : ClosedSurf T) (g g' : V3 ℝ) :
    (T.map (m1 g)).foldr (· + ·) zero3 = (T.map (m1 g')).foldr (· + ·) zero3 := by
  change vsum (T.map (m1 g)) = vsum (T.map (m1 g'))
  apply v3_ext
  · rw [vsum_x, vsum_x, List.map_map, List.map_map]
    have := m1_apex_indep_dot h ⟨1, 0, 0⟩ g g'
    simpa [dot_def, Function.comp_def] using this
  · rw [vsum_y, vsum_y, List.map_map, List.map_map]
    have := m1_apex_indep_dot h ⟨0, 1, 0⟩ g g'
    simpa [dot_def, Function.comp_def] using this
  · rw [vsum_z, vsum_z, List.map_map, List.map_map]
    have := m1_apex_indep_dot h ⟨0, 0, 1⟩ g g'
    simpa [dot_def, Function.comp_def] using this

/-- **apex independence of the second moments** -/
theorem m2_apex_indep {T : List Tri} (h : ClosedSurf T) (u w g g' : V3 ℝ) :
    (T.map (fun t => m2 g t u w)).sum = (T.map (fun t => m2 g' t u w)).sum :=
  sum_eq_of_cone h _ _ (fun p q => m2_4 u w g' g p q) (fun p q => m2_4_swap u w g' g p q)
    (m2_cone u w g g')

/-! ### fan-origin independence within a face (T14.2) -/

/-- signed vector area of the triangle `(P,x,y)` -/
noncomputable def area3 (P x y : V3 ℝ) : V3 ℝ := V3.smul (1/2) (V3.cross (x - P) (y - P))

/-- scalar signed area w.r.t. a fixed normal `n`: `(1/2) n·((x-P)×(y-P))` -/
noncomputable def areaN (n P x y : V3 ℝ) : ℝ := V3.dot n (area3 P x y)

/-- first moment of the triangle `(P,x,y)`: signed area times centroid -/
noncomputable def mom1N (n P x y : V3 ℝ) : V3 ℝ := V3.smul (areaN n P x y / 3) (P + x + y)

/-- the point `a + s•(b-a)` on the line through `a`, `b` -/
def lerp (a b : V3 ℝ) (s : ℝ) : V3 ℝ := a + V3.smul s (b - a)

/-- splitting the edge `(a,b)` at `E = a + s(b-a)` splits the fan triangle's vector area -/
theorem split_edge_area (P a b : V3 ℝ) (s : ℝ) :
    area3 P a (lerp a b s) + area3 P (lerp a b s) b = area3 P a b := by
  apply v3_ext <;>
    simp only [area3, lerp, smul_x, smul_y, smul_z, cross_x, cross_y, cross_z, sub_x, sub_y, sub_z,
      add_x, add_y, add_z] <;> ring

theorem split_edge_areaN (n P a b : V3 ℝ) (s : ℝ) :
    areaN n P a (lerp a b s) + areaN n P (lerp a b s) b = areaN n P a b := by
  simp only [areaN, ← dot_add, split_edge_area]

/-- ... and its first moment (any `n`, any real `s`) -/
theorem split_edge_moment1 (n P a b : V3 ℝ) (s : ℝ) :
    mom1N n P a (lerp a b s) + mom1N n P (lerp a b s) b = mom1N n P a b := by
  apply v3_ext <;>
    simp only [mom1N, areaN, area3, lerp, dot_def, smul_x, smul_y, smul_z, cross_x, cross_y, cross_z,
      sub_x, sub_y, sub_z, add_x, add_y, add_z] <;> ring

/-- sum of an edge function along an open path -/
def pathSum (f : V3 ℝ → V3 ℝ → ℝ) : List (V3 ℝ) → ℝ
  | [] => 0
  | [_] => 0
  | p :: q :: r => f p q + pathSum f (q :: r)

theorem pathSum_eq_zip (f : V3 ℝ → V3 ℝ → ℝ) (p : V3 ℝ) (m : List (V3 ℝ)) :
    pathSum f (p :: m) = (((p :: m).zip m).map (fun e => f e.1 e.2)).sum := by
  induction m generalizing p with
  | nil => simp [pathSum]
  | cons q m ih => simp only [pathSum, ih q, List.zip_cons_cons, List.map_cons, List.sum_cons]

theorem zip_append_singleton {α β : Type} (x : α) (l1 : List α) (l2 : List β)
    (h : l1.length = l2.length) : (l1 ++ [x]).zip l2 = l1.zip l2 := by
  induction l1 generalizing l2 with
  | nil => cases l2 with
    | nil => rfl
    | cons b l2 => simp at h
  | cons a l1 ih => cases l2 with
    | nil => simp at h
    | cons b l2 =>
      simp only [List.cons_append, List.zip_cons_cons]
      rw [ih l2 (by simpa using h)]

/-- the cyclic sum `Σ_i f v_i v_{i+1}` as closed path sum -/
theorem cyc_eq_pathSum (f : V3 ℝ → V3 ℝ → ℝ) (p : V3 ℝ) (r : List (V3 ℝ)) :
    (((p :: r).zip ((p :: r).rotate 1)).map (fun e => f e.1 e.2)).sum
      = pathSum f (p :: (r ++ [p])) := by
  rw [pathSum_eq_zip, List.rotate_cons_succ, List.rotate_zero]
  have : (p :: (r ++ [p])).zip (r ++ [p]) = (p :: r).zip (r ++ [p]) := by
    have := zip_append_singleton p (p :: r) (r ++ [p]) (by simp)
    simpa using this
  rw [this]

theorem pathSum_fan (n P p e : V3 ℝ) (m : List (V3 ℝ)) :
    pathSum (fun x y => areaN n P x y) (p :: (m ++ [e]))
      = pathSum (fun x y => (1/2) * V3.dot n (V3.cross x y)) (p :: (m ++ [e]))
        + (1/2) * V3.dot n (V3.cross P (p - e)) := by
  induction m generalizing p with
  | nil =>
    simp only [List.nil_append, pathSum, areaN, area3, dot_def, smul_x, smul_y, smul_z,
      cross_x, cross_y, cross_z, sub_x, sub_y, sub_z]
    ring
  | cons q m ih =>
    simp only [List.cons_append, pathSum]
    rw [ih q]
    simp only [areaN, area3, dot_def, smul_x, smul_y, smul_z,
      cross_x, cross_y, cross_z, sub_x, sub_y, sub_z]
    ring

/-- **fan-origin independence** (dotted with an arbitrary vector `n`):
`Σ_i (1/2)(v_i − P)×(v_{i+1} − P) = Σ_i (1/2) v_i × v_{i+1}` over the closed polygon `l` -/
theorem fan_origin_indep_dot (n P : V3 ℝ) (l : List (V3 ℝ)) :
    ((l.zip (l.rotate 1)).map (fun e => V3.dot n (area3 P e.1 e.2))).sum
      = ((l.zip (l.rotate 1)).map
          (fun e => V3.dot n (V3.smul (1/2) (V3.cross e.1 e.2)))).sum := by
  cases l with
  | nil => simp
  | cons p r =>
    have h1 := cyc_eq_pathSum (fun x y => areaN n P x y) p r
    have h2 := cyc_eq_pathSum (fun x y => (1/2) * V3.dot n (V3.cross x y)) p r
    have h3 := pathSum_fan n P p p r
    have h4 : V3.dot n (V3.cross P (p - p)) = 0 := by
      simp only [dot_def, cross_x, cross_y, cross_z, sub_x, sub_y, sub_z]; ring
    have h5 : (fun e : V3 ℝ × V3 ℝ => V3.dot n (V3.smul (1/2) (V3.cross e.1 e.2)))
        = fun e => (1/2) * V3.dot n (V3.cross e.1 e.2) := by
      funext e; simp only [dot_def, smul_x, smul_y, smul_z]; ring
    rw [h5]
    simp only [areaN] at h1 h3
    rw [h1, h2, h3, h4]; ring

theorem vsum_map_x {ι : Type} (L : List ι) (F : ι → V3 ℝ) :
    (vsum (L.map F)).x = (L.map (fun e => V3.dot ⟨1, 0, 0⟩ (F e))).sum := by
  rw [vsum_x, List.map_map]; congr 1; apply List.map_congr_left; intro e _; simp [dot_def]
theorem vsum_map_y {ι : Type} (L : List ι) (F : ι → V3 ℝ) :
    (vsum (L.map F)).y = (L.map (fun e => V3.dot ⟨0, 1, 0⟩ (F e))).sum := by
  rw [vsum_y, List.map_map]; congr 1; apply List.map_congr_left; intro e _; simp [dot_def]
theorem vsum_map_z {ι : Type} (L : List ι) (F : ι → V3 ℝ) :
    (vsum (L.map F)).z = (L.map (fun e => V3.dot ⟨0, 0, 1⟩ (F e))).sum := by
  rw [vsum_z, List.map_map]; congr 1; apply List.map_congr_left; intro e _; simp [dot_def]

/-- **fan-origin independence** (vector form) -/
theorem fan_origin_indep (P : V3 ℝ) (l : List (V3 ℝ)) :
    ((l.zip (l.rotate 1)).map (fun e => area3 P e.1 e.2)).foldr (· + ·) zero3
      = ((l.zip (l.rotate 1)).map
          (fun e => V3.smul (1/2) (V3.cross e.1 e.2))).foldr (· + ·) zero3 := by
  change vsum _ = vsum _
  apply v3_ext
  · rw [vsum_map_x, vsum_map_x]; exact fan_origin_indep_dot _ P l
  · rw [vsum_map_y, vsum_map_y]; exact fan_origin_indep_dot _ P l
  · rw [vsum_map_z, vsum_map_z]; exact fan_origin_indep_dot _ P l

#print axioms closedSurf_of_paired
#print axioms closedSurf_of_perm
#print axioms closure
#print axioms volume_apex_indep
#print axioms divergence
#print axioms tetVol_cone
#print axioms m1_cone
#print axioms m2_cone
#print axioms m1_apex_indep
#print axioms m1_apex_indep_dot
#print axioms m2_apex_indep
#print axioms split_edge_area
#print axioms split_edge_moment1
#print axioms fan_origin_indep_dot
#print axioms fan_origin_indep

end MVoro.Surface
