/-
C11 — all arbitrary-precision backends give identical results.

Statements about the translator output: `Gen.inSphereDet` (the one, backend-independent source text of the
determinant, generic in the `Integer` type) and `Gen.signExtract_<backend>` (the `cfg`-selected sign
extraction arm of each of the five backends), both regenerated from src/geometry.rs on every run.
Modelled, not verified: each big-integer crate implements ℤ (`+ - *`, `signum`, `sign`, comparison).
-/
import MVoro.Obl.InSphere
namespace MVoro.C11
open MVoro

/-- T11.1 every backend's arm is `Int.sign`: the five arms agree on every integer -/
theorem sign_arms_agree (d : Int) :
    Gen.signExtract_dashu d = Gen.signExtract_ibig d ∧ Gen.signExtract_rug d = Gen.signExtract_ibig d ∧
    Gen.signExtract_malachite d = Gen.signExtract_ibig d ∧ Gen.signExtract_num_bigint d = Gen.signExtract_ibig d := by
  obtain ⟨h1, h2, h3, h4, h5⟩ := Obl.gen_signExtract_eq d
  exact ⟨h2.trans h1.symm, h3.trans h1.symm, h4.trans h1.symm, h5.trans h1.symm⟩

/-- T11.1 the common value is one of -1, 0, 1 -/
theorem sign_arm_values (d : Int) :
    Gen.signExtract_ibig d = -1 ∨ Gen.signExtract_ibig d = 0 ∨ Gen.signExtract_ibig d = 1 := by
  rw [(Obl.gen_signExtract_eq d).1]
  rcases Int.lt_trichotomy d 0 with h | h | h
  · left; exact Int.sign_eq_neg_one_of_neg h
  · right; left; subst h; rfl
  · right; right; exact Int.sign_eq_one_of_pos h

/-- T11.2 the predicate of every backend = its arm applied to the same determinant = the sign of the reference
determinant: identical predicate signs on every 5-tuple of integer points -/
theorem predicate_backend_independent (a b c d v : I3 Int) :
    Gen.signExtract_ibig (Gen.inSphereDet a b c d v) = Int.sign (Ref.inSphereDet a b c d v) ∧
    Gen.signExtract_dashu (Gen.inSphereDet a b c d v) = Int.sign (Ref.inSphereDet a b c d v) ∧
    Gen.signExtract_rug (Gen.inSphereDet a b c d v) = Int.sign (Ref.inSphereDet a b c d v) ∧
    Gen.signExtract_malachite (Gen.inSphereDet a b c d v) = Int.sign (Ref.inSphereDet a b c d v) ∧
    Gen.signExtract_num_bigint (Gen.inSphereDet a b c d v) = Int.sign (Ref.inSphereDet a b c d v) := by
  obtain ⟨h1, h2, h3, h4, h5⟩ := Obl.gen_signExtract_eq (Gen.inSphereDet a b c d v)
  rw [h1, h2, h3, h4, h5, Obl.gen_inSphereDet_eq]
  exact ⟨rfl, rfl, rfl, rfl, rfl⟩

/-- non-vacuity: a negative, a zero and a positive determinant through two structurally different arms -/
example : Gen.signExtract_malachite (-5) = -1 ∧ Gen.signExtract_ibig 0 = 0 ∧ Gen.signExtract_num_bigint 12 = 1 := by
  decide

end MVoro.C11
