/-
C10 — the exact in-sphere predicate returns the true sign on the integer grid.

Property theorems only (helper lemmas live in `MVoro/Proofs`).  All statements
are about the hand-written reference `Ref.inSphereDet`; the translator output
`Gen.inSphereDet` (regenerated from src/geometry.rs on every run) is tied to it
by `MVoro.Gen.InSphereObl`.
-/
import MVoro.Model.InSphere
import MVoro.Proofs.Orientation
import Mathlib.Tactic.Ring
import Mathlib.Tactic.LinearCombination
import Mathlib.Tactic.Linarith
import Mathlib.Tactic.Positivity
import Mathlib.Tactic.Push
import Mathlib.Data.Rat.Cast.Order

namespace MVoro.C10
open MVoro Ref

variable {α : Type}

/-- squared distance -/
def dist2 [Add α] [Sub α] [Mul α] (p o : I3 α) : α :=
  (p.c0 - o.c0) * (p.c0 - o.c0) + (p.c1 - o.c1) * (p.c1 - o.c1) + (p.c2 - o.c2) * (p.c2 - o.c2)

set_option maxRecDepth 65536 in
/-- **T10.1** For *all* points of any commutative ring (no 2^52 bound needed) and any
centre `o` equidistant from `a b c d`: the determinant the code computes equals
`orient a b c d * (|v-o|² - |a-o|²)` (orientation times the power of `v` w.r.t. the
circumsphere). -/
theorem insphere_power [CommRing α] (a b c d v o : I3 α)
    (hb : dist2 b o = dist2 a o) (hc : dist2 c o = dist2 a o) (hd : dist2 d o = dist2 a o) :
    inSphereDet a b c d v = orient a b c d * (dist2 v o - dist2 a o) := by
  simp only [dist2] at hb hc hd
  simp only [inSphereDet, orient, bigInt, det3, det2, dist2]
  linear_combination (norm := (simp only [det3, det2]; ring1))
    (-(det3 (c.c0 - a.c0) (d.c0 - a.c0) (v.c0 - a.c0) (c.c1 - a.c1) (d.c1 - a.c1) (v.c1 - a.c1)
        (c.c2 - a.c2) (d.c2 - a.c2) (v.c2 - a.c2))) * hb
    + (det3 (b.c0 - a.c0) (d.c0 - a.c0) (v.c0 - a.c0) (b.c1 - a.c1) (d.c1 - a.c1) (v.c1 - a.c1)
        (b.c2 - a.c2) (d.c2 - a.c2) (v.c2 - a.c2)) * hc
    - (det3 (b.c0 - a.c0) (c.c0 - a.c0) (v.c0 - a.c0) (b.c1 - a.c1) (c.c1 - a.c1) (v.c1 - a.c1)
        (b.c2 - a.c2) (c.c2 - a.c2) (v.c2 - a.c2)) * hd

/-- **T10.5a** three-term Grassmann–Plücker relation between the two determinants the code evaluates. -/
theorem grassmann_pluecker : type_of% @Orientation.grassmann_pluecker := @Orientation.grassmann_pluecker

/-- **T10.5b** the dual triple `(cur, next, p)` of a vertex created by `clip_by_plane` is positively oriented — the
precondition under which the sign of the in-sphere determinant means "inside" — whenever the removed vertex `(a, b, c)`
was positively oriented and strictly clipped, the vertex `(b, a, d)` across the edge was positively oriented and kept, and
the old cell was locally Delaunay at that edge.  For all integers (any ordered commutative ring). -/
theorem new_triple_oriented : type_of% @Orientation.new_triple_oriented := @Orientation.new_triple_oriented

/-- **T10.5c** and the created vertex is again locally Delaunay against the kept vertex across the inherited edge. -/
theorem new_vertex_delaunay_vs_kept : type_of% @Orientation.new_vertex_delaunay_vs_kept := @Orientation.new_vertex_delaunay_vs_kept

/- T10.5 over a whole construction (`Star.reachable_from_init_good`, `Star.exact_decision_iff`) is stated in `Props/C01`
(T01.4d/e), which imports this file. -/

end MVoro.C10
