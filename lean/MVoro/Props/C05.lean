/-
C05 — construction is total and robust on boundary and degenerate inputs.

Panic-freedom of floating-point code on all inputs is a run-time fact (DESIGN §1, kind C) and is not
a theorem about the model.  What the model carries, for all inputs:
-/
import MVoro.Proofs.VorSet
import MVoro.Proofs.Misc

namespace MVoro.C05
open MVoro MVoro.VorSet

variable {E : Type*} [NormedAddCommGroup E] [InnerProductSpace ℝ E]

/-- **T05.1** the generator belongs to every half space its cell is cut with, strictly for `q ≠ g`: in exact
arithmetic the cell is never empty ("Vertices cannot be empty!" is unreachable) and the generator is never clipped. -/
theorem generator_never_clipped (g q : E) (h : q ≠ g) :
    g ∈ HS g q ∧ 0 < inner ℝ (g - q) (g - (1/2 : ℝ) • (g + q)) := ⟨gen_mem_HS g q, gen_mem_HS_strict g q h⟩

/-- **T05.2** every position the algorithm can query on one axis (generator in the closed box, its mirror images through
both walls, any point of the box) lies in `[A - W, A + 2W]` … -/
theorem queried_positions_range (A W g p : Rat) (hW : 0 < W) (hg : A ≤ g ∧ g ≤ A + W) (hp : A ≤ p ∧ p ≤ A + W) :
    (A - W ≤ Grid.mirrorLow A g ∧ Grid.mirrorLow A g ≤ A) ∧ (A + W ≤ Grid.mirrorHigh A W g ∧ Grid.mirrorHigh A W g ≤ A + 2*W) ∧
    (A - W ≤ p ∧ p ≤ A + 2*W) := GridProofs.queried_positions A W g p hW hg hp

/-- … and with the repaired domain (`anchor - 3/2 width`, `1/(4 width)`) it is rescaled into `[9/8, 15/8]`, so that
floating-point evaluation errors (far below 1/16) cannot leave `[1, 2)`: the grid coordinate is in `[0, 2^52)`. -/
theorem grid_in_range (A W x r' : Rat) (hW : 0 < W) (hlo : A - W ≤ x) (hhi : x ≤ A + 2*W)
    (he : |r' - Grid.rescaleExact (3/2) 4 A W x| ≤ 1/16) : 0 ≤ Grid.mantissa r' ∧ Grid.mantissa r' < 2^52 :=
  GridProofs.grid_in_range_fixed A W x r' hW hlo hhi he

/-- … and after the second repair (`29187d1`: all active axes share the largest active extent `G ≥ W` as grid scale) the
rescaled value lies in `(1, 15/8]`; an evaluation error smaller than its distance to 1 and than 1/16 cannot leave `[1, 2)` -/
theorem grid_in_range_shared_scale (A W G x r' : Rat) (hW : 0 < W) (hG : W ≤ G) (hlo : A - W ≤ x) (hhi : x ≤ A + 2*W)
    (he : |r' - Grid.rescaleExactG (3/2) 4 A W G x| ≤ min (Grid.rescaleExactG (3/2) 4 A W G x - 1) (1/16)) :
    0 ≤ Grid.mantissa r' ∧ Grid.mantissa r' < 2^52 :=
  GridProofs.gridG_in_range_fixed A W G x r' hW hG hlo hhi he

/-- all active axes get the same grid width: the map to the grid is a similarity on the subspace the generators live in -/
theorem grid_scale_shared (dim : Nat) (w0 w1 w2 : Rat) (i j : Nat) (hi : i < dim) (hj : j < dim) :
    Grid.gridWidth true dim w0 w1 w2 i = Grid.gridWidth true dim w0 w1 w2 j :=
  GridProofs.gridWidth_shared dim w0 w1 w2 i j hi hj

/-- the defect of the pinned tree, as a theorem about its constants: the mirror image through the upper wall of a generator
on the lower wall is rescaled to exactly 2 -/
theorem pinned_domain_hits_two (A W : Rat) (hW : 0 < W) : Grid.rescaleExact 1 3 A W (Grid.mirrorHigh A W A) = 2 :=
  GridProofs.rescale_hits_two_pinned A W hW

/-- **T05.3** ties are decided consistently: `inSphereDet * orient` does not change when the same five points are
presented in another order, so every cell asking about the same configuration gets the same answer -/
theorem ties_globally_consistent {α : Type} [CommRing α] (a b c d v : I3 α) :
    Ref.inSphereDet b a c d v * Ref.orient b a c d = Ref.inSphereDet a b c d v * Ref.orient a b c d ∧
    Ref.inSphereDet a c b d v * Ref.orient a c b d = Ref.inSphereDet a b c d v * Ref.orient a b c d ∧
    Ref.inSphereDet a b d c v * Ref.orient a b d c = Ref.inSphereDet a b c d v * Ref.orient a b c d :=
  InSphereProofs.insphere_consistent a b c d v

/-- **T05.3b** the exact tie test is the Euclidean one only under a similarity: uniform scaling multiplies the determinant by
`k^5` and the orientation by `k^3` (so "inside" = sign of their product is unchanged for every `k ≠ 0`), translation changes
nothing … -/
theorem tie_test_invariant_under_similarity {α : Type} [CommRing α] (k : α) (t a b c d v : I3 α) :
    Ref.inSphereDet ⟨k * a.c0, k * a.c1, k * a.c2⟩ ⟨k * b.c0, k * b.c1, k * b.c2⟩ ⟨k * c.c0, k * c.c1, k * c.c2⟩
        ⟨k * d.c0, k * d.c1, k * d.c2⟩ ⟨k * v.c0, k * v.c1, k * v.c2⟩ = k ^ 5 * Ref.inSphereDet a b c d v ∧
    Ref.orient ⟨k * a.c0, k * a.c1, k * a.c2⟩ ⟨k * b.c0, k * b.c1, k * b.c2⟩ ⟨k * c.c0, k * c.c1, k * c.c2⟩
        ⟨k * d.c0, k * d.c1, k * d.c2⟩ = k ^ 3 * Ref.orient a b c d ∧
    Ref.inSphereDet ⟨a.c0 + t.c0, a.c1 + t.c1, a.c2 + t.c2⟩ ⟨b.c0 + t.c0, b.c1 + t.c1, b.c2 + t.c2⟩
        ⟨c.c0 + t.c0, c.c1 + t.c1, c.c2 + t.c2⟩ ⟨d.c0 + t.c0, d.c1 + t.c1, d.c2 + t.c2⟩
        ⟨v.c0 + t.c0, v.c1 + t.c1, v.c2 + t.c2⟩ = Ref.inSphereDet a b c d v :=
  ⟨InSphereProofs.inSphereDet_scale k a b c d v, InSphereProofs.orient_scale k a b c d, InSphereProofs.inSphereDet_translate t a b c d v⟩

/-- … and NOT under a per-axis rescaling (the pinned tree): doubling the first axis turns "outside" into "inside" -/
theorem tie_test_not_invariant_per_axis :
    (0 < Ref.orient (⟨0, 1, 3⟩ : I3 Int) ⟨2, 3, 0⟩ ⟨3, 0, 2⟩ ⟨3, 1, 1⟩ ∧
      0 < Ref.inSphereDet (⟨0, 1, 3⟩ : I3 Int) ⟨2, 3, 0⟩ ⟨3, 0, 2⟩ ⟨3, 1, 1⟩ ⟨1, 0, 1⟩) ∧
    (0 < Ref.orient (⟨0, 1, 3⟩ : I3 Int) ⟨4, 3, 0⟩ ⟨6, 0, 2⟩ ⟨6, 1, 1⟩ ∧
      Ref.inSphereDet (⟨0, 1, 3⟩ : I3 Int) ⟨4, 3, 0⟩ ⟨6, 0, 2⟩ ⟨6, 1, 1⟩ ⟨2, 0, 1⟩ < 0) :=
  InSphereWitness.anisotropic_scaling_flips_sign

end MVoro.C05
