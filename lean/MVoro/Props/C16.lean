/-
C16 — the safety radius bounds the cell and its region of influence.
Property theorems (proofs in `MVoro/Proofs/VorSet.lean`).
-/
import MVoro.Proofs.VorSet

namespace MVoro.C16
open MVoro.VorSet

variable {E : Type*} [NormedAddCommGroup E] [InnerProductSpace ℝ E]

/-- **T16.1** the farthest point of a polytope from the generator is a vertex: the ball through the farthest
vertex contains the whole cell, so `safety_radius = 2 * max vertex distance ≥ 2 * distance to any point` -/
theorem farthest_point_is_vertex {V : Set E} {g : E} {R : ℝ} (hV : V ⊆ Metric.closedBall g R) :
    convexHull ℝ V ⊆ Metric.closedBall g R := hull_subset_ball hV

/-- **T16.2** a neighbour that shares a face point `x` with the cell is within `2 * dist g x`, hence within the safety radius -/
theorem neighbour_within_safety_radius {g q x : E} (hx : dist x g = dist x q) : dist g q ≤ 2 * dist g x :=
  neighbour_within hx

/-- **T16.3** a generator farther than `2R` cannot cut a cell contained in the ball of radius `R` -/
theorem far_generator_irrelevant {S : Set E} {g q : E} {R : ℝ}
    (hS : S ⊆ Metric.closedBall g R) (hq : 2 * R < dist g q) : S ∩ HS g q = S := security_radius hS hq

/-- **T16.3** adding any set of generators all farther than the safety radius leaves the cell unchanged -/
theorem add_far_generators {S : Set E} {g : E} {R : ℝ} (far : List E) (hS : S ⊆ Metric.closedBall g R)
    (hfar : ∀ q ∈ far, 2 * R < dist g q) : S ∩ ⋂ q ∈ far, HS g q = S := add_far_unchanged far hS hfar

/-- **T16.4** (with T08.3) in 1D/2D the half spaces only see the projection onto the active subspace, so the
radius measured in that subspace is a valid bound -/
theorem subspace_radius (K : Submodule ℝ E) [K.HasOrthogonalProjection] {g q : E} (hg : g ∈ K) (hq : q ∈ K) (x : E) :
    x ∈ HS g q ↔ ((K.orthogonalProjectionOnto x : K) : E) ∈ HS g q := HS_proj K hg hq x

/-- non-vacuity of T16.3 on the real line -/
example : (Set.Icc (-1 : ℝ) 1) ∩ HS (0 : ℝ) 3 = Set.Icc (-1) 1 := by
  apply far_generator_irrelevant (R := 1)
  · intro x hx
    simp only [Set.mem_Icc] at hx
    simp only [Metric.mem_closedBall, Real.dist_eq, sub_zero, abs_le]
    exact hx
  · simp [Real.dist_eq]; norm_num

end MVoro.C16
