/-
C02 — cells tile the domain: positive measures that sum to the box measure.
Property theorems (proofs in `MVoro/Proofs/VorSet.lean`, `MVoro/Proofs/Periodic.lean`).

What is proved for all generator sets: the cells cover the box, two cells overlap only inside a
bisector hyperplane (a proper affine subspace when the generators are distinct), the generator is
strictly inside each of its half spaces (so its cell contains a neighbourhood of it within the box:
positive measure), unit thickness of the unused axes.
`sum_measure_eq`, `cell_measure_pos`, `overlap_null` (Proofs/MeasureTiling.lean, Mathlib measure theory): for any Haar
measure (length, area, volume) on a finite-dimensional inner-product space the measures of the cells `Vor G i ∩ B` sum to
the measure of the box, two cells overlap in a null set, and every cell whose generator lies in the (convex, solid) box —
boundary included — has positive measure.  Together with `C01.run_eq_voronoi` (the clipping loop returns `Vor G i ∩ B`)
this is C02 for reflective boxes at full strength, in every dimension.
`sum_measure_eq_periodic`, `sum_measure_eq_box_lattice` (Proofs/MeasurePeriodic.lean): for periodic boxes the cells are
`VorP Λ G i` (nearest among all generators and ALL their lattice images, own images included); their union is a fundamental
domain of the lattice (every point has a nearest image because bounded sets hold finitely many lattice points; translates
overlap in null sets), hence the measures sum to the measure of the box — for every lattice spanned by a basis, every
dimension, every Haar measure.  `C06.images27_suffice` shows that the 3^d images the code enumerates decide `VorP`.
What remains trusted in both cases: the identification of the code's signed tetrahedron sum with the Lebesgue measure of
that set (DESIGN §4 item 2), certified per run.
-/
import MVoro.Proofs.VorSet
import MVoro.Proofs.Periodic
import MVoro.Proofs.MeasureTiling
import MVoro.Proofs.MeasurePeriodic

namespace MVoro.C02
open MVoro.VorSet

variable {E : Type*} [NormedAddCommGroup E] [InnerProductSpace ℝ E]

/-- **T02.1** every point of the box (of the whole space) lies in some cell -/
theorem cells_cover {ι : Type*} [Finite ι] [Nonempty ι] (G : ι → E) (B : Set E) :
    B = ⋃ i, (Vor G i ∩ B) := by
  ext x
  constructor
  · intro hx
    obtain ⟨i, hi⟩ := cover G x
    exact Set.mem_iUnion.mpr ⟨i, hi, hx⟩
  · intro hx
    obtain ⟨i, hi⟩ := Set.mem_iUnion.mp hx
    exact hi.2

/-- **T02.1** two cells overlap only on the bisector of their generators -/
theorem overlap_in_bisector {ι : Type*} (G : ι → E) (i j : ι) :
    Vor G i ∩ Vor G j ⊆ {x | inner ℝ (G i - G j) (x - (1/2 : ℝ) • (G i + G j)) = 0} := by
  intro x hx
  have h := overlap_on_bisector G i j hx
  rw [bisector_eq_hyperplane] at h
  exact h

/-- **T02.1** that bisector is a proper hyperplane: it misses the generator itself -/
theorem bisector_misses_generator {a b : E} (h : a ≠ b) : a ∉ {x : E | dist x a = dist x b} :=
  bisector_proper h

/-- **T02.1 / T05.1** the generator lies strictly inside every half space its cell is cut with: the cell
is never empty and has non-empty interior relative to the box -/
theorem generator_strictly_inside (g q : E) (h : q ≠ g) :
    0 < inner ℝ (g - q) (g - (1/2 : ℝ) • (g + q)) := gen_mem_HS_strict g q h

/-- **T02.3** unit thickness: the measure of a prism over the normalised axis `[-1/2, 1/2]` is its base measure -/
theorem unit_thickness (base : ℝ) : base * (1/2 - (-1/2)) = base := MVoro.Periodic.prism_volume base

section measure
open MeasureTheory
variable {F : Type*} [NormedAddCommGroup F] [InnerProductSpace ℝ F] [FiniteDimensional ℝ F] [MeasurableSpace F] [BorelSpace F]

/-- **T02.2** the measures of the cells sum to the measure of the box, for pairwise different generators, any measurable
box, any Haar measure (length / area / volume), any dimension -/
theorem sum_measure_eq {ι : Type*} [Fintype ι] [Nonempty ι] (G : ι → F) (hG : Function.Injective G)
    (μ : Measure F) [μ.IsAddHaarMeasure] (B : Set F) (hB : MeasurableSet B) :
    ∑ i, μ (Vor G i ∩ B) = μ B := MVoro.MeasureTiling.sum_measure_eq G hG μ B hB

/-- **T02.2** every cell has strictly positive measure when its generator lies in the closed convex box with non-empty
interior — also on a face, an edge or a corner of the box -/
theorem cell_measure_pos {ι : Type*} [Fintype ι] (G : ι → F) (μ : Measure F) [μ.IsAddHaarMeasure] (B : Set F)
    (hconv : Convex ℝ B) (hint : (interior B).Nonempty) (i : ι) (hi : G i ∈ B) : 0 < μ (Vor G i ∩ B) :=
  MVoro.MeasureTiling.cell_measure_pos G μ B hconv hint i hi

/-- **T02.2** two cells of different generators overlap in a null set -/
theorem overlap_null {ι : Type*} (G : ι → F) (μ : Measure F) [μ.IsAddHaarMeasure] {i j : ι} (h : G i ≠ G j) :
    μ (Vor G i ∩ Vor G j) = 0 := MVoro.MeasureTiling.overlap_null G μ h

/-- **T02.2, periodic** the measures of the lattice-periodic cells sum to the measure of any fundamental domain of a locally
finite lattice, for generators pairwise different modulo the lattice -/
theorem sum_measure_eq_periodic {ι : Type*} [Fintype ι] [Nonempty ι] (Λ : AddSubgroup F) [Countable Λ] (G : ι → F)
    (hinj : ∀ i j (l : Λ), G i = G j + l → i = j ∧ l = 0)
    (hfin : ∀ s : Set F, Bornology.IsBounded s → (s ∩ (Λ : Set F)).Finite)
    (μ : Measure F) [μ.IsAddHaarMeasure] (D : Set F) (hD : IsAddFundamentalDomain Λ D μ) :
    ∑ i, μ (MVoro.MeasurePeriodic.VorP Λ G i) = μ D :=
  MVoro.MeasurePeriodic.sum_measure_eq_periodic hinj hfin μ D hD

/-- **T02.2, periodic box** the same for the lattice spanned by a basis (`b a = wₐ eₐ` for a box) and the half-open
parallelepiped (box) it spans -/
theorem sum_measure_eq_box_lattice {κ : Type*} [Fintype κ] (b : Module.Basis κ ℝ F) {ι : Type*} [Fintype ι] [Nonempty ι]
    (G : ι → F)
    (hinj : ∀ i j (l : (Submodule.span ℤ (Set.range b)).toAddSubgroup), G i = G j + l → i = j ∧ l = 0)
    (μ : Measure F) [μ.IsAddHaarMeasure] :
    ∑ i, μ (MVoro.MeasurePeriodic.VorP (Submodule.span ℤ (Set.range b)).toAddSubgroup G i) = μ (ZSpan.fundamentalDomain b) :=
  MVoro.MeasurePeriodic.sum_measure_eq_box_lattice b G hinj μ

/-- non-vacuity: two generators on the real line in the unit interval: the two lengths are positive and sum to 1 -/
example : ∑ i : Fin 2, volume (Vor (![0, 1] : Fin 2 → ℝ) i ∩ Set.Icc 0 1) = volume (Set.Icc (0 : ℝ) 1) :=
  sum_measure_eq _ (by intro a b h; fin_cases a <;> fin_cases b <;> simp_all) volume _ measurableSet_Icc

end measure

/-- non-vacuity: two generators on the real line -/
example : (Set.univ : Set ℝ) = ⋃ i : Fin 2, (Vor (![0, 1] : Fin 2 → ℝ) i ∩ Set.univ) := cells_cover _ _

end MVoro.C02
