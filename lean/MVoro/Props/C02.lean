/-
C02 — cells tile the domain: positive measures that sum to the box measure.
Property theorems (proofs in `MVoro/Proofs/VorSet.lean`, `MVoro/Proofs/Periodic.lean`).

What is proved for all generator sets: the cells cover the box, two cells overlap only inside a
bisector hyperplane (a proper affine subspace when the generators are distinct), the generator is
strictly inside each of its half spaces (so its cell contains a neighbourhood of it within the box:
positive measure), unit thickness of the unused axes.
`sum_volume_eq_partial`: the measure-theoretic conclusion "Σ volume = volume of the box" from covering +
null overlaps is NOT formalised (it needs Lebesgue measure of polytopes); the executable exact model
asserts it on every tessellation it builds (exact rational volumes sum exactly to the box volume).
-/
import MVoro.Proofs.VorSet
import MVoro.Proofs.Periodic

namespace MVoro.C02
open MVoro.VorSet

variable {E : Type*} [NormedAddCommGroup E] [InnerProductSpace ℝ E]

/-- **T02.1** every point of the box (of the whole space) lies in some cell -/
theorem cells_cover {ι : Type*} [Finite ι] [Nonempty ι] (G : ι → E) (B : Set E) :
    B = ⋃ i, (Vor G i ∩ B) := by
  ext x
  constructor
  · intro hx
    obtain ⟨i, hi⟩ := cover G x
    exact Set.mem_iUnion.mpr ⟨i, hi, hx⟩
  · intro hx
    obtain ⟨i, hi⟩ := Set.mem_iUnion.mp hx
    exact hi.2

/-- **T02.1** two cells overlap only on the bisector of their generators -/
theorem overlap_in_bisector {ι : Type*} (G : ι → E) (i j : ι) :
    Vor G i ∩ Vor G j ⊆ {x | inner ℝ (G i - G j) (x - (1/2 : ℝ) • (G i + G j)) = 0} := by
  intro x hx
  have h := overlap_on_bisector G i j hx
  rw [bisector_eq_hyperplane] at h
  exact h

/-- **T02.1** that bisector is a proper hyperplane: it misses the generator itself -/
theorem bisector_misses_generator {a b : E} (h : a ≠ b) : a ∉ {x : E | dist x a = dist x b} :=
  bisector_proper h

/-- **T02.1 / T05.1** the generator lies strictly inside every half space its cell is cut with: the cell
is never empty and has non-empty interior relative to the box -/
theorem generator_strictly_inside (g q : E) (h : q ≠ g) :
    0 < inner ℝ (g - q) (g - (1/2 : ℝ) • (g + q)) := gen_mem_HS_strict g q h

/-- **T02.3** unit thickness: the measure of a prism over the normalised axis `[-1/2, 1/2]` is its base measure -/
theorem unit_thickness (base : ℝ) : base * (1/2 - (-1/2)) = base := MVoro.Periodic.prism_volume base

/-- non-vacuity: two generators on the real line -/
example : (Set.univ : Set ℝ) = ⋃ i : Fin 2, (Vor (![0, 1] : Fin 2 → ℝ) i ∩ Set.univ) := cells_cover _ _

end MVoro.C02
