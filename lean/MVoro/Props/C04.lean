/-
C04 — face normals point away from the left generator; cells are closed surfaces.
Property theorems.  Proofs of the surface identities in `MVoro/Proofs/Surface.lean`.
The orientation convention of the *code* is tied in by `MVoro/Obl/Face.lean` (translator output).
-/
import MVoro.Proofs.Surface
import MVoro.Proofs.VorSet

namespace MVoro.C04
open MVoro MVoro.Surface

/-- **T04.1** model of the orientation: with `sgn = storedNormalSign * clipNormalSign` the stored normal is
`sgn • (g - q)/|g - q|`; it points away from the left generator `g` towards the neighbour position `q`
iff `sgn = -1`:  `⟨sgn • (g - q), q - g⟩ > 0 ↔ sgn = -1` for `sgn = ±1`, `q ≠ g`. -/
theorem normal_outward_iff (sgn : ℝ) (hs : sgn = 1 ∨ sgn = -1) (g q : V3 ℝ) (h : 0 < V3.dot (q - g) (q - g)) :
    0 < V3.dot (V3.smul sgn (g - q)) (q - g) ↔ sgn = -1 := by
  have key : V3.dot (V3.smul sgn (g - q)) (q - g) = -sgn * V3.dot (q - g) (q - g) := by
    simp only [dot_def, smul_x, smul_y, smul_z, sub_x, sub_y, sub_z]; ring
  rw [key]
  rcases hs with rfl | rfl
  · constructor
    · intro h'; nlinarith
    · intro h'; norm_num at h'
  · constructor
    · intro _; rfl
    · intro _; nlinarith

/-- **T04.2** closure: the vector areas of a closed oriented triangulated surface sum to zero -/
theorem closure {T : List Tri} (h : ClosedSurf T) : (T.map vecArea).foldr (· + ·) zero3 = zero3 :=
  Surface.closure h

/-- **T04.2** the signed tetrahedron sum of a closed surface does not depend on the apex (generator) -/
theorem volume_apex_independent {T : List Tri} (h : ClosedSurf T) (g g' : V3 ℝ) :
    (T.map (tetVol g)).sum = (T.map (tetVol g')).sum := Surface.volume_apex_indep h g g'

/-- **T04.2** divergence theorem for the decomposition: `(1/3) Σ A_t · (c_t - g) = - Σ tetVol g t`
(with `tetVol g t = det[b-a, c-a, g-a]/6`, which is positive when the triangle normal points towards `g`;
for the outward vector areas `-A_t` the right hand side is the positive volume) -/
theorem divergence (T : List Tri) (g : V3 ℝ) :
    (1/3) * (T.map (fun t => V3.dot (vecArea t) (triCentroid t - g))).sum = - (T.map (tetVol g)).sum :=
  Surface.divergence T g

/-- **T04.2** a surface given combinatorially by paired directed edges (the invariant of C18) is closed -/
theorem closed_of_paired_edges (pos : Nat → V3 ℝ) (L : List (Nat × Nat × Nat))
    (hnd : (L.flatMap edges).Nodup) (hsw : ∀ e ∈ L.flatMap edges, e.swap ∈ L.flatMap edges) :
    ClosedSurf (L.map (toTri pos)) := closedSurf_of_paired pos L hnd hsw

/-- **T04.3** every point of the face between `i` and `j` lies on the bisector plane (normal `g_i - g_j`, through the midpoint) -/
theorem face_on_bisector_plane {E : Type*} [NormedAddCommGroup E] [InnerProductSpace ℝ E] {ι : Type*} (G : ι → E) (i j : ι) :
    VorSet.face G i j ⊆ {x | inner ℝ (G i - G j) (x - (1/2 : ℝ) • (G i + G j)) = 0} :=
  VorSet.face_subset_plane G i j

/-- non-vacuity: the four outward faces of the unit tetrahedron form a closed surface -/
example : ClosedSurf unitTet := by
  unfold unitTet; exact tetFaces_closed _

end MVoro.C04
