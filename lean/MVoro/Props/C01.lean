/-
C01 — every cell is the nearest-generator region of its generator.
Property theorems; helper lemmas and proofs in `MVoro/Proofs/VorSet.lean`.
-/
import MVoro.Proofs.VorSet

namespace MVoro.C01
open MVoro.VorSet

variable {E : Type*} [NormedAddCommGroup E] [InnerProductSpace ℝ E]

/-- **T01.0** the half space the code builds for a neighbour at `q` (normal `g - q`, through the
midpoint) is exactly "at least as close to `g` as to `q`". -/
theorem halfspace_is_closer (g q x : E) : x ∈ HS g q ↔ dist x g ≤ dist x q := mem_HS_iff g q x

/-- **T01.1** For candidates visited in non-decreasing distance and *any* radius function that bounds
the current cell, the clipping loop with security-radius termination (`safety_radius < dist` with
`safety_radius = 2 * rad`) returns the set of points of the start set `B` that are at least as close to
`g` as to every candidate — the definition of the Voronoi cell — for every point set, in every dimension. -/
theorem build_is_voronoi_cell (g : E) (rad : Set E → ℝ) (B : Set E) (qs : List E)
    (hsorted : qs.Pairwise (fun a b => dist g a ≤ dist g b))
    (hrad : ∀ S : Set E, S ⊆ B → S ⊆ Metric.closedBall g (rad S)) :
    run g rad B qs = {x ∈ B | ∀ q ∈ qs, dist x g ≤ dist x q} :=
  run_eq_voronoi g rad B qs hsorted hrad

/-- **T01.2** a candidate whose half space contains every vertex can be skipped (the code's `num_r = 0`). -/
theorem unclipped_plane_irrelevant {S V : Set E} {g q : E} (hS : S ⊆ convexHull ℝ V) (hV : V ⊆ HS g q) :
    S ∩ HS g q = S := drop_unclipped hS hV

/-- the radius the code uses (max vertex distance) is a valid radius function for a polytope -/
theorem vertex_radius_valid {V : Set E} {g : E} {R : ℝ} (hV : V ⊆ Metric.closedBall g R) :
    convexHull ℝ V ⊆ Metric.closedBall g R := hull_subset_ball hV

/-- non-vacuity: on the real line, box `[-1,1]`, generator `0`, candidates `[1, 3]`, radius `1`:
the hypotheses hold and the early exit fires at candidate `3`. -/
example : run (0 : ℝ) (fun _ => 1) (Set.Icc (-1) 1) [1, 3] = {x ∈ Set.Icc (-1 : ℝ) 1 | ∀ q ∈ [(1 : ℝ), 3], dist x 0 ≤ dist x q} := by
  apply build_is_voronoi_cell
  · simp [Real.dist_eq]
  · intro S hS x hx
    have := hS hx
    simp only [Set.mem_Icc] at this
    simp only [Metric.mem_closedBall, Real.dist_eq, sub_zero, abs_le]
    exact this

end MVoro.C01
