/-
C01 — every cell is the nearest-generator region of its generator.
Property theorems; helper lemmas and proofs in `MVoro/Proofs/VorSet.lean`.
-/
import MVoro.Proofs.VorSet
import MVoro.Proofs.ClipFeasible
import MVoro.Proofs.StarInvariant
import MVoro.Proofs.StarReach

namespace MVoro.C01
open MVoro.VorSet

variable {E : Type*} [NormedAddCommGroup E] [InnerProductSpace ℝ E]

/-- **T01.0** the half space the code builds for a neighbour at `q` (normal `g - q`, through the
midpoint) is exactly "at least as close to `g` as to `q`". -/
theorem halfspace_is_closer (g q x : E) : x ∈ HS g q ↔ dist x g ≤ dist x q := mem_HS_iff g q x

/-- **T01.1** For candidates visited in non-decreasing distance and *any* radius function that bounds
the current cell, the clipping loop with security-radius termination (`safety_radius < dist` with
`safety_radius = 2 * rad`) returns the set of points of the start set `B` that are at least as close to
`g` as to every candidate — the definition of the Voronoi cell — for every point set, in every dimension. -/
theorem build_is_voronoi_cell (g : E) (rad : Set E → ℝ) (B : Set E) (qs : List E)
    (hsorted : qs.Pairwise (fun a b => dist g a ≤ dist g b))
    (hrad : ∀ S : Set E, S ⊆ B → S ⊆ Metric.closedBall g (rad S)) :
    run g rad B qs = {x ∈ B | ∀ q ∈ qs, dist x g ≤ dist x q} :=
  run_eq_voronoi g rad B qs hsorted hrad

/-- **T01.2** a candidate whose half space contains every vertex can be skipped (the code's `num_r = 0`). -/
theorem unclipped_plane_irrelevant {S V : Set E} {g q : E} (hS : S ⊆ convexHull ℝ V) (hV : V ⊆ HS g q) :
    S ∩ HS g q = S := drop_unclipped hS hV

/-- the radius the code uses (max vertex distance) is a valid radius function for a polytope -/
theorem vertex_radius_valid {V : Set E} {g : E} {R : ℝ} (hV : V ⊆ Metric.closedBall g R) :
    convexHull ℝ V ⊆ Metric.closedBall g R := hull_subset_ball hV

/-- non-vacuity: on the real line, box `[-1,1]`, generator `0`, candidates `[1, 3]`, radius `1`:
the hypotheses hold and the early exit fires at candidate `3`. -/
example : run (0 : ℝ) (fun _ => 1) (Set.Icc (-1) 1) [1, 3] = {x ∈ Set.Icc (-1 : ℝ) 1 | ∀ q ∈ [(1 : ℝ), 3], dist x 0 ≤ dist x q} := by
  apply build_is_voronoi_cell
  · simp [Real.dist_eq]
  · intro S hS x hx
    have := hS hx
    simp only [Set.mem_Icc] at this
    simp only [Metric.mem_closedBall, Real.dist_eq, sub_zero, abs_le]
    exact this

/-! ### T01.4 (partial): what `clip_by_plane` creates -/

/-- **T01.4a** the vertex `Vertex::from_dual(cur, next, p)` created for a boundary edge is the point where the old edge
between the kept vertex `w` and the removed vertex `v` crosses the new plane: `w + t (v - w)` with `t ∈ [0, 1)`. -/
theorem clip_new_vertex_is_edge_crossing : type_of% @ClipFeasible.new_vertex_on_segment := @ClipFeasible.new_vertex_on_segment

/-- **T01.4b** "every vertex satisfies every half space of the cell" is an invariant of clipping, for all planes and
points (kept vertices by the decision that kept them, created vertices because they lie on an old edge). -/
theorem clip_preserves_feasibility : type_of% @ClipFeasible.feasible_preserved := @ClipFeasible.feasible_preserved

/-- **T01.4c** all vertex invariants of an exact clip together: for a closed surface (C18) of vertices that lie on their
planes, are positively oriented (the precondition of the exact predicate, C10) and satisfy every half space, and exact
decisions, every kept vertex and every created vertex `(x, y, p)` (one per boundary edge of the removed region) is good again
with respect to the enlarged plane set — for every configuration over any ordered field. -/
theorem clip_preserves_all_vertex_invariants : type_of% @Star.clip_invariant := @Star.clip_invariant

/-- **T01.4d** the start cell of `ConvexCell::init` (any box, any generator strictly inside, walls as bisectors of the mirror
images) is a closed surface of good vertices. -/
theorem init_cell_good : type_of% @Star.init_good := @Star.init_good

/-- **T01.4e** every cell reachable from the start cell by exact clips whose boundary reconstruction succeeded is a closed
surface (C18) of vertices that lie on their planes, are positively oriented (C10) and satisfy every half space of the cell. -/
theorem reachable_cells_good : type_of% @Star.reachable_from_init_good := @Star.reachable_from_init_good

/- **T01.4 partial** — NOT proved: a closed, consistently oriented surface (C18) whose vertices lie on their planes (C19)
and satisfy all half spaces (T01.4b) is the boundary of the intersection of the half spaces.  The exact oracle certifies it
per cell at run time (`Oracle.checkCell`, brute-force rebuild). -/

end MVoro.C01
