//! Correspondence harness: drives the real `meshless_voronoi` code (built from /repo with
//! `--cfg meshless_voro_verif`) and writes line-protocol records `op id family inputs | results`.
mod gen;
mod ops;
mod proto;
mod ser;
mod rng;

use std::io::Write;

fn main() {
    let args: Vec<String> = std::env::args().collect();
    if args.len() < 2 {
        eprintln!("usage: mv_harness <op> [--seed S] [--tier quick|thorough] [--out FILE]");
        std::process::exit(2);
    }
    let op = args[1].clone();
    let mut seed = 1u64;
    let mut thorough = false;
    let mut outp: Option<String> = None;
    let mut extra: Vec<String> = vec![];
    let mut i = 2;
    while i < args.len() {
        match args[i].as_str() {
            "--seed" => {
                seed = args[i + 1].parse().expect("seed");
                i += 1;
            }
            "--tier" => {
                thorough = args[i + 1] == "thorough";
                i += 1;
            }
            "--out" => {
                outp = Some(args[i + 1].clone());
                i += 1;
            }
            other => extra.push(other.to_string()),
        }
        i += 1;
    }
    proto::install_panic_hook();
    let mut out = proto::Out::new();
    let mut rng = rng::Rng::new(seed ^ op.bytes().fold(0u64, |h, b| h.wrapping_mul(131).wrapping_add(b as u64)));
    match op.as_str() {
        "backend" => {
            println!("{}", meshless_voronoi::verif_hooks::backend_name());
            return;
        }
        "insphere" => ops::insphere::run(&mut out, &mut rng, thorough),
        "tess" => ops::tess::run(&mut out, &mut rng, thorough),
        "bigtess" => ops::tess::run_big(&mut out, &mut rng, thorough),
        "cells" => ops::cells::run(&mut out, &mut rng, thorough),
        "cellsin" => ops::cells::run_file(&mut out, extra.first().expect("cellsin needs a file")),
        "iloc" => ops::iloc::run(&mut out, &mut rng, thorough),
        "geom" => ops::geom::run(&mut out, &mut rng, thorough),
        "withfaces" => ops::withfaces::run(&mut out, &mut rng, thorough),
        "bigcell" => ops::withfaces::run_bigcell(&mut out, &mut rng, thorough),
        "sched" => ops::sched::run(&mut out, &mut rng, thorough),
        "recip" => ops::recip::run(&mut out, &mut rng, thorough),
        "lowdim" => ops::lowdim::run(&mut out, &mut rng, thorough),
        "periodic3" => ops::periodic::run_periodic3(&mut out, &mut rng, thorough),
        "translate" => ops::periodic::run_translate(&mut out, &mut rng, thorough),
        "knn" => ops::aux20::run_knn(&mut out, &mut rng, thorough),
        "sphere" => ops::aux20::run_sphere(&mut out, &mut rng, thorough),
        "nnvisit" => ops::nnvisit::run(&mut out, &mut rng, thorough),
        "clipperm" => ops::clipperm::run(&mut out, &mut rng, thorough),
        "cycle" => ops::clipperm::run_cycle(&mut out, &mut rng, thorough),
        "clip1" => ops::clipperm::run_clip1(&mut out, &mut rng, thorough),
        "addfar" => ops::addfar::run(&mut out, &mut rng, thorough),
        "routes" => ops::routes::run_routes(&mut out, &mut rng, thorough),
        "partial" => ops::routes::run_partial(&mut out, &mut rng, thorough),
        _ => {
            eprintln!("unknown op {}", op);
            std::process::exit(2);
        }
    }
    let _ = extra;
    let text = out.lines.join("\n") + "\n";
    match outp {
        Some(p) => std::fs::File::create(p).unwrap().write_all(text.as_bytes()).unwrap(),
        None => std::io::stdout().write_all(text.as_bytes()).unwrap(),
    }
    eprintln!("FAMILIES {}", out.families.iter().map(|(k, v)| format!("{}={}", k, v)).collect::<Vec<_>>().join(" "));
}
