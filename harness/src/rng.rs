//! Deterministic PRNG (xorshift64*); every random choice of the harness derives from one state.
#[derive(Clone)]
pub struct Rng(pub u64);

impl Rng {
    pub fn new(seed: u64) -> Self {
        let mut r = Rng(seed.wrapping_mul(0x9E3779B97F4A7C15) ^ 0xD1B54A32D192ED03);
        if r.0 == 0 {
            r.0 = 0x1234_5678_9ABC_DEF1;
        }
        for _ in 0..4 {
            r.next_u64();
        }
        r
    }
    pub fn fork(&mut self, tag: u64) -> Rng {
        Rng::new(self.next_u64() ^ tag.wrapping_mul(0xA24BAED4963EE407))
    }
    pub fn next_u64(&mut self) -> u64 {
        let mut x = self.0;
        x ^= x >> 12;
        x ^= x << 25;
        x ^= x >> 27;
        self.0 = x;
        x.wrapping_mul(0x2545F4914F6CDD1D)
    }
    /// uniform in [0, n)
    pub fn below(&mut self, n: u64) -> u64 {
        if n == 0 {
            return 0;
        }
        self.next_u64() % n
    }
    pub fn range(&mut self, lo: i64, hi: i64) -> i64 {
        lo + self.below((hi - lo + 1) as u64) as i64
    }
    /// uniform in [0, 1)
    pub fn f64(&mut self) -> f64 {
        (self.next_u64() >> 11) as f64 / (1u64 << 53) as f64
    }
    pub fn bool(&mut self) -> bool {
        self.next_u64() & 1 == 1
    }
    pub fn chance(&mut self, p: f64) -> bool {
        self.f64() < p
    }
    pub fn shuffle<T>(&mut self, v: &mut [T]) {
        for i in (1..v.len()).rev() {
            let j = self.below(i as u64 + 1) as usize;
            v.swap(i, j);
        }
    }
}
