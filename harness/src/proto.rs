//! Line protocol helpers. Floats cross the protocol as 16 hex digits of their bit pattern.
use glam::DVec3;
use std::fmt::Write;

pub fn fx(x: f64) -> String {
    format!("{:016x}", x.to_bits())
}
pub fn v3(v: DVec3) -> String {
    format!("{} {} {}", fx(v.x), fx(v.y), fx(v.z))
}
pub fn opt_usize(o: Option<usize>) -> String {
    match o {
        Some(i) => i.to_string(),
        None => "-".to_string(),
    }
}
pub fn opt_v3(o: Option<DVec3>) -> String {
    match o {
        Some(v) => format!("S {}", v3(v)),
        None => "N".to_string(),
    }
}
pub fn list<T: std::fmt::Display>(v: &[T]) -> String {
    let mut s = format!("{}", v.len());
    for x in v {
        write!(s, " {}", x).unwrap();
    }
    s
}

pub struct Out {
    pub lines: Vec<String>,
    pub next_id: usize,
    pub families: std::collections::BTreeMap<String, usize>,
}

impl Out {
    pub fn new() -> Self {
        Out { lines: vec![], next_id: 0, families: Default::default() }
    }
    /// one record: `op id input-tokens | implementation-result-tokens`
    pub fn rec(&mut self, op: &str, family: &str, input: &str, result: &str) -> usize {
        let id = self.next_id;
        self.next_id += 1;
        *self.families.entry(family.to_string()).or_insert(0) += 1;
        self.lines.push(format!("{} {} {} {} | {}", op, id, family, input, result));
        id
    }
}

/// Run a closure, mapping a panic to `Err("PANIC file:line msg")`.
pub fn guarded<T, F: FnOnce() -> T + std::panic::UnwindSafe>(f: F) -> Result<T, String> {
    match std::panic::catch_unwind(f) {
        Ok(v) => Ok(v),
        Err(e) => {
            let msg = if let Some(s) = e.downcast_ref::<&str>() {
                s.to_string()
            } else if let Some(s) = e.downcast_ref::<String>() {
                s.clone()
            } else {
                "?".to_string()
            };
            let loc = LAST_PANIC_LOC.lock().map(|l| l.clone()).unwrap_or_default();
            Err(format!("PANIC {} {}", loc, msg.replace(' ', "_").replace('\n', "_")))
        }
    }
}

pub static LAST_PANIC_LOC: std::sync::Mutex<String> = std::sync::Mutex::new(String::new());

pub fn install_panic_hook() {
    std::panic::set_hook(Box::new(|info| {
        let loc = info.location().map(|l| format!("{}:{}", l.file(), l.line())).unwrap_or_default();
        if let Ok(mut l) = LAST_PANIC_LOC.lock() {
            *l = loc;
        }
    }));
}
