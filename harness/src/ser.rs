//! Serialisation of implementation results.
use crate::proto::{fx, opt_usize, opt_v3, v3};
use meshless_voronoi::integrals::FaceIntegrator;
use meshless_voronoi::Voronoi;

pub fn voronoi(v: &Voronoi) -> String {
    let mut s = format!("OK NC {}", v.cells().len());
    for c in v.cells() {
        let nb: Vec<usize> = c.neighbour_ids(v).collect();
        s.push_str(&format!(
            " c {} {} {} {} {} {} {}",
            fx(c.volume()),
            v3(c.centroid()),
            v3(c.loc()),
            fx(c.safety_radius()),
            c.face_connections_offset(),
            c.face_count(),
            crate::proto::list(&nb)
        ));
    }
    s.push_str(&format!(" NF {}", v.faces().len()));
    for f in v.faces() {
        s.push_str(&format!(
            " f {} {} {} {} {} {}",
            f.left(),
            opt_usize(f.right()),
            opt_v3(f.shift()),
            fx(f.area()),
            v3(f.centroid()),
            v3(f.normal())
        ));
    }
    s.push_str(&format!(" CONN {}", crate::proto::list(v.cell_face_connections())));
    // what the tessellation reports about its own box
    s.push_str(&format!(" META {} {} {} {}", v3(v.anchor()), v3(v.width()), v.dimensionality(), v.periodic() as u8));
    // accessors that derive from the above: per cell `face_indices` and the length of the `faces` iterator; per face
    // `is_periodic` / `is_boundary`
    s.push_str(&format!(" ACC {}", v.cells().len()));
    for c in v.cells() {
        s.push_str(&format!(" {} {}", crate::proto::list(c.face_indices(v)), c.faces(v).count()));
    }
    s.push_str(&format!(" {}", v.faces().len()));
    for f in v.faces() {
        s.push_str(&format!(" {}{}", f.is_periodic() as u8, f.is_boundary() as u8));
    }
    s
}

/// bit-exact fingerprint of a tessellation (FNV over the serialisation)
pub fn fingerprint(s: &str) -> u64 {
    let mut h: u64 = 0xcbf29ce484222325;
    for b in s.bytes() {
        h ^= b as u64;
        h = h.wrapping_mul(0x100000001b3);
    }
    h
}

pub fn face_header<I: meshless_voronoi::integrals::FaceIntegralWithData>(f: &FaceIntegrator<I>) -> String {
    format!("{} {} {}", f.left(), opt_usize(f.right()), opt_v3(f.shift()))
}
