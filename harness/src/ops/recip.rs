//! op `recip` (C03, C02): LARGE inputs (260 … 1500 generators) of very uneven density — blobs with isolated generators, voids
//! inside shells, filaments and sheets — mostly periodic.  Too large for the exact oracle; the record carries what the
//! reciprocity and tiling clauses need: all non-symmetric face integrals (left, right, shift, area, centroid), the cell volumes
//! and the stored faces of the compact tessellation (left, right, shift, area, normal, centroid).
use crate::gen;
use crate::proto::{fx, guarded, opt_usize, opt_v3, v3, Out};
use crate::rng::Rng;
use meshless_voronoi::integrals::AreaCentroidIntegral;
use meshless_voronoi::{Voronoi, VoronoiIntegrator};

pub fn run(out: &mut Out, rng: &mut Rng, thorough: bool) {
    let reps = if thorough { 4 } else { 1 };
    for _ in 0..reps {
        for (fam, dim, periodic, n) in [
            ("blob_isolated", 3usize, true, 420usize),
            ("blob_isolated", 2, true, 700),
            ("blob_isolated", 1, true, 300),
            ("void_shell", 3, true, 300),
            ("void_shell", 2, true, 400),
            ("collinear", 2, true, 320),
            ("collinear", 3, true, 300),
            ("coplanar", 3, true, 400),
            ("uniform", 3, true, 280),
            ("blob_isolated", 3, false, 1100),
            ("void_shell", 3, false, 330),
        ] {
            let n = if thorough { n + rng.below(n as u64) as usize } else { n + rng.below(40) as usize };
            let inp = gen::make(rng, fam, dim, periodic, n);
            let i2 = inp.clone();
            let res = guarded(move || {
                let inp = i2;
                let vi = VoronoiIntegrator::build(&inp.gens, None, inp.anchor, inp.width, inp.dimensionality(), inp.periodic);
                let fs = vi.compute_face_integrals::<AreaCentroidIntegral>();
                let mut s = format!("OK NF {}", fs.len());
                for f in &fs {
                    s.push_str(&format!(" {} {} {} {} {}", f.left(), opt_usize(f.right()), opt_v3(f.shift()), fx(f.integral().area), v3(f.integral().centroid)));
                }
                let v = Voronoi::from(&vi);
                s.push_str(&format!(" NC {}", v.cells().len()));
                for c in v.cells() {
                    s.push_str(&format!(" {}", fx(c.volume())));
                }
                s.push_str(&format!(" SF {}", v.faces().len()));
                for f in v.faces() {
                    s.push_str(&format!(" {} {} {} {} {} {}", f.left(), opt_usize(f.right()), opt_v3(f.shift()), fx(f.area()), v3(f.normal()), v3(f.centroid())));
                }
                s
            })
            .unwrap_or_else(|e| e);
            out.rec("recip", &inp.family, &inp.tokens(), &res);
        }
        // the same relations through the integrator WITH stored faces (fan decomposition per face): two generators on the axis of a
        // ring of 300 (their common face is a 300-gon) and a void inside a shell (one cell with hundreds of faces)
        for which in 0..2 {
            use glam::DVec3;
            let inp = if which == 0 {
                let c = DVec3::splat(0.5);
                let mut gens = vec![c - DVec3::new(0., 0., 0.05), c + DVec3::new(0., 0., 0.05)];
                let k = 300 + rng.below(40) as usize;
                for i in 0..k {
                    let a = (i as f64 + 0.3) / k as f64 * std::f64::consts::TAU;
                    gens.push(c + DVec3::new(a.cos(), a.sin(), 0.) * 0.3 * (1.0 + 1e-3 * rng.f64()));
                }
                gen::Input { family: "ringwf3r_unit_z".to_string(), dim: 3, periodic: false, anchor: DVec3::ZERO, width: DVec3::ONE, gens }
            } else {
                let mut i = gen::make(rng, "void_shell", 3, false, 200);
                i.family = i.family.replace("void_shell", "void_shellwf");
                i
            };
            let i2 = inp.clone();
            let res = guarded(move || {
                let inp = i2;
                let vi = VoronoiIntegrator::build(&inp.gens, None, inp.anchor, inp.width, inp.dimensionality(), inp.periodic).with_faces();
                let fs = vi.compute_face_integrals::<AreaCentroidIntegral>();
                let mut s = format!("OK NF {}", fs.len());
                for f in &fs {
                    s.push_str(&format!(" {} {} {} {} {}", f.left(), opt_usize(f.right()), opt_v3(f.shift()), fx(f.integral().area), v3(f.integral().centroid)));
                }
                let v = Voronoi::from(&vi);
                s.push_str(&format!(" NC {}", v.cells().len()));
                for c in v.cells() {
                    s.push_str(&format!(" {}", fx(c.volume())));
                }
                s.push_str(&format!(" SF {}", v.faces().len()));
                for f in v.faces() {
                    s.push_str(&format!(" {} {} {} {} {} {}", f.left(), opt_usize(f.right()), opt_v3(f.shift()), fx(f.area()), v3(f.normal()), v3(f.centroid())));
                }
                s
            })
            .unwrap_or_else(|e| e);
            out.rec("recip", &inp.family, &inp.tokens(), &res);
        }
    }
}
