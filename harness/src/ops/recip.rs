//! op `recip` (C03, C02): LARGE inputs (260 … 1500 generators) of very uneven density — blobs with isolated generators, voids
//! inside shells, filaments and sheets — mostly periodic.  Too large for the exact oracle; the record carries what the
//! reciprocity and tiling clauses need: all non-symmetric face integrals (left, right, shift, area, centroid), the cell volumes
//! and the stored faces of the compact tessellation (left, right, shift, area, normal, centroid).
use crate::gen;
use crate::proto::{fx, guarded, opt_usize, opt_v3, v3, Out};
use crate::rng::Rng;
use meshless_voronoi::integrals::AreaCentroidIntegral;
use meshless_voronoi::{Voronoi, VoronoiIntegrator};

pub fn run(out: &mut Out, rng: &mut Rng, thorough: bool) {
    let reps = if thorough { 4 } else { 1 };
    for _ in 0..reps {
        for (fam, dim, periodic, n) in [
            ("blob_isolated", 3usize, true, 420usize),
            ("blob_isolated", 2, true, 700),
            ("blob_isolated", 1, true, 300),
            ("void_shell", 3, true, 300),
            ("void_shell", 2, true, 400),
            ("collinear", 2, true, 320),
            ("collinear", 3, true, 300),
            ("coplanar", 3, true, 400),
            ("uniform", 3, true, 280),
            ("blob_isolated", 3, false, 1100),
            ("void_shell", 3, false, 330),
        ] {
            let n = if thorough { n + rng.below(n as u64) as usize } else { n + rng.below(40) as usize };
            let inp = gen::make(rng, fam, dim, periodic, n);
            let i2 = inp.clone();
            let res = guarded(move || {
                let inp = i2;
                let vi = VoronoiIntegrator::build(&inp.gens, None, inp.anchor, inp.width, inp.dimensionality(), inp.periodic);
                let fs = vi.compute_face_integrals::<AreaCentroidIntegral>();
                let mut s = format!("OK NF {}", fs.len());
                for f in &fs {
                    s.push_str(&format!(" {} {} {} {} {}", f.left(), opt_usize(f.right()), opt_v3(f.shift()), fx(f.integral().area), v3(f.integral().centroid)));
                }
                let v = Voronoi::from(&vi);
                s.push_str(&format!(" NC {}", v.cells().len()));
                for c in v.cells() {
                    s.push_str(&format!(" {}", fx(c.volume())));
                }
                s.push_str(&format!(" SF {}", v.faces().len()));
                for f in v.faces() {
                    s.push_str(&format!(" {} {} {} {} {} {}", f.left(), opt_usize(f.right()), opt_v3(f.shift()), fx(f.area()), v3(f.normal()), v3(f.centroid())));
                }
                s
            })
            .unwrap_or_else(|e| e);
            out.rec("recip", &inp.family, &inp.tokens(), &res);
        }
    }
}
