//! ops `clipperm` and `cycle` (C18).
//!
//! `clipperm`: take a reachable `ConvexCell` (built by the real code over a prefix of the real
//! candidate sequence), permute its public `vertices` vector, rotate the dual triples, and clip every
//! copy with the same half space through the real `clip_by_plane`.  One record per copy: the vertex
//! array as handed to `clip_by_plane` (dual triple + whether the real filter removes the vertex) and
//! the resulting dual triples + volume.
//!
//! `cycle`: random operation sequences on the real `SimpleCycle`.
use crate::gen::{self, Input};
use crate::proto::{fx, guarded, Out};
use crate::rng::Rng;
use meshless_voronoi::integrals::VolumeIntegral;
use meshless_voronoi::verif_hooks as vh;
use meshless_voronoi::{ConvexCell, HalfSpace, WithoutFaces};

fn canon(d: [usize; 3]) -> [usize; 3] {
    let m = *d.iter().min().unwrap();
    if d[0] == m {
        d
    } else if d[1] == m {
        [d[1], d[2], d[0]]
    } else {
        [d[2], d[0], d[1]]
    }
}

fn result_tokens(cell: &ConvexCell<WithoutFaces>) -> String {
    let mut ds: Vec<[usize; 3]> = cell.vertices.iter().map(|v| canon(v.dual)).collect();
    ds.sort();
    let vol = cell.compute_cell_integral::<(), VolumeIntegral>(()).volume;
    let mut s = format!("OK {} {} {}", cell.clipping_planes.len(), fx(vol), ds.len());
    for d in ds {
        s.push_str(&format!(" {} {} {}", d[0], d[1], d[2]));
    }
    s
}

fn next_perm(p: &mut [usize]) -> bool {
    // lexicographic next permutation
    let n = p.len();
    if n < 2 {
        return false;
    }
    let mut i = n - 1;
    while i > 0 && p[i - 1] >= p[i] {
        i -= 1;
    }
    if i == 0 {
        return false;
    }
    let mut j = n - 1;
    while p[j] <= p[i - 1] {
        j -= 1;
    }
    p.swap(i - 1, j);
    p[i..].reverse();
    true
}

struct Scenario {
    is3d: bool,
    cell: ConvexCell<WithoutFaces>,
    hs: HalfSpace,
    gens: Vec<vh::Generator>,
    boundary: vh::Boundary,
    boxvol: f64,
}

/// a central generator inside a bumpy shell of `k` generators: its cell accumulates one plane per shell generator, so that
/// plane indices cross 16, 32, 64, 128 (growth of per-plane storage)
fn shell_input(rng: &mut Rng, k: usize) -> Input {
    use glam::DVec3;
    let c = DVec3::new(0.5 + 0.01 * rng.f64(), 0.5 + 0.01 * rng.f64(), 0.5 + 0.01 * rng.f64());
    let mut gens = vec![c];
    while gens.len() < k + 1 {
        let d = DVec3::new(rng.f64() - 0.5, rng.f64() - 0.5, rng.f64() - 0.5);
        let l = d.length();
        if l < 0.05 || l > 0.5 {
            continue;
        }
        gens.push(c + d / l * (0.3 * (1. + 0.08 * (rng.f64() - 0.5))));
    }
    let mut inp = Input { family: "shell3r_unit_z".to_string(), dim: 3, periodic: false, anchor: DVec3::ZERO, width: DVec3::ONE, gens };
    inp.sanitize();
    inp
}

/// scenario on a shell input: the cell of the central generator after `m` neighbours, clipped by the next one
fn shell_scenario(inp: &Input, m: usize) -> Option<Scenario> {
    let dimn = inp.dimensionality();
    let gens = vh::make_generators(&inp.gens, dimn);
    let boundary = vh::Boundary::cuboid(inp.anchor, inp.width, false, dimn);
    let cands = vh::nn_visit(&inp.gens, 0, inp.width, dimn, false, 1000);
    if cands.len() < m + 2 {
        return None;
    }
    let loc = gens[0].loc();
    let cell = vh::cell_build_with(loc, 0, &gens, cands[..=m].to_vec(), &boundary);
    let (j, shift) = cands[m + 1];
    let hs = vh::bisector(loc, gens[j].loc(), j, shift);
    Some(Scenario { is3d: true, cell, hs, gens, boundary, boxvol: 1. })
}

/// a generator surrounded by a ring of `k` neighbours in its own horizontal plane (its cell becomes a k-sided prism between the
/// floor and the ceiling of the box) and one neighbour straight above, farther away than the ring: the bisector of that last
/// neighbour removes all `k` corners of the prism's top, so the boundary cycle of ONE clip has `k` entries
fn ring_cap_input(rng: &mut Rng, k: usize) -> Input {
    use glam::DVec3;
    let c = DVec3::new(0.5, 0.5, 0.3);
    let mut gens = vec![c];
    let phase = rng.f64();
    for i in 0..k {
        let a = (i as f64 + phase) / k as f64 * std::f64::consts::TAU;
        // slightly uneven radii: no two ring neighbours are exactly equidistant
        let r = 0.2 * (1.0 + 0.01 * rng.f64());
        gens.push(c + DVec3::new(a.cos(), a.sin(), 0.) * r);
    }
    gens.push(c + DVec3::new(0.001, -0.002, 0.5));
    let mut inp = Input { family: "ringcap3r_unit_z".to_string(), dim: 3, periodic: false, anchor: DVec3::ZERO, width: DVec3::ONE, gens };
    inp.sanitize();
    inp
}

/// the prism cell of the central generator after all ring neighbours, clipped by the cap neighbour
fn ring_cap_scenario(inp: &Input) -> Option<Scenario> {
    let dimn = inp.dimensionality();
    let gens = vh::make_generators(&inp.gens, dimn);
    let boundary = vh::Boundary::cuboid(inp.anchor, inp.width, false, dimn);
    let cands = vh::nn_visit(&inp.gens, 0, inp.width, dimn, false, 1000);
    let k = inp.gens.len() - 2;
    if cands.len() < k + 2 {
        return None;
    }
    let loc = gens[0].loc();
    let cell = vh::cell_build_with(loc, 0, &gens, cands[..=k].to_vec(), &boundary);
    let (j, shift) = cands[k + 1];
    let hs = vh::bisector(loc, gens[j].loc(), j, shift);
    Some(Scenario { is3d: true, cell, hs, gens, boundary, boxvol: 1. })
}

fn scenario(inp: &Input, rng: &mut Rng) -> Option<Scenario> {
    scenario_at(inp, None, None, rng)
}

/// the clip number `m_fixed` of the cell of generator `idx_fixed` (random where `None`)
fn scenario_at(inp: &Input, idx_fixed: Option<usize>, m_fixed: Option<usize>, rng: &mut Rng) -> Option<Scenario> {
    let n = inp.gens.len();
    if n < 2 {
        return None;
    }
    let dimn = inp.dimensionality();
    // the builders normalise unused axes before anything else
    let mut anchor = inp.anchor;
    let mut width = inp.width;
    if inp.dim < 3 {
        anchor.z = -0.5;
        width.z = 1.;
    }
    if inp.dim < 2 {
        anchor.y = -0.5;
        width.y = 1.;
    }
    let gens = vh::make_generators(&inp.gens, dimn);
    let boundary = vh::Boundary::cuboid(anchor, width, inp.periodic, dimn);
    let idx = idx_fixed.unwrap_or_else(|| rng.below(n as u64) as usize);
    let cands = vh::nn_visit(&inp.gens, idx, width, dimn, inp.periodic, 64);
    if cands.len() < 2 {
        return None;
    }
    let m = match m_fixed {
        Some(m) if m + 1 < cands.len() => m,
        Some(_) => return None,
        None => rng.below((cands.len() as u64 - 1).min(14)) as usize, // neighbours used before the permuted clip
    };
    let loc = gens[idx].loc();
    let prefix: Vec<_> = cands[..=m].to_vec();
    let cell = vh::cell_build_with(loc, idx, &gens, prefix, &boundary);
    // the plane of the permuted clip: bisector towards one of the not yet used candidates
    let rest = &cands[m + 1..];
    // prefer a candidate whose bisector actually cuts the cell (random starting point among the next ones)
    let start = if m_fixed.is_some() { 0 } else { rng.below(rest.len().min(4) as u64) as usize };
    let mut hs = None;
    // a fixed clip number means the builder's own next clip (cutting or not)
    for k in 0..(if m_fixed.is_some() { 1 } else { rest.len() }) {
        let (j, shift) = rest[(start + k) % rest.len()];
        let ngb = gens[j].loc() + shift.unwrap_or(glam::DVec3::ZERO);
        if ngb == loc {
            continue;
        }
        let h = vh::bisector(loc, ngb, j, shift);
        let cuts = cell.vertices.iter().any(|v| h.clip(v.loc) <= 0.);
        if hs.is_none() || cuts {
            hs = Some(h);
        }
        if cuts {
            break;
        }
    }
    let hs = hs?;
    Some(Scenario { is3d: inp.dim == 3, cell, hs, gens, boundary, boxvol: width.x * width.y * width.z })
}

fn emit_scenario(out: &mut Out, fam: &str, sid: usize, sc: &Scenario, rng: &mut Rng, max_exhaustive: usize, sampled: usize) {
    let nv = sc.cell.vertices.len();
    // decisions of the real filter; ties are decided by the exact predicate inside clip_by_plane: read them off a reference run
    let mut reference = sc.cell.clone();
    let ok = guarded(std::panic::AssertUnwindSafe(|| vh::cell_clip(&mut reference, sc.hs.clone(), &sc.gens, &sc.boundary)));
    let kept: std::collections::HashSet<[usize; 3]> = match &ok {
        Ok(()) => reference.vertices.iter().map(|v| canon(v.dual)).collect(),
        Err(_) => Default::default(),
    };
    let mut ties = 0;
    let removed: Vec<bool> = sc
        .cell
        .vertices
        .iter()
        .map(|v| {
            let c = sc.hs.clip(v.loc);
            if c == 0. {
                ties += 1;
                ok.is_ok() && !kept.contains(&canon(v.dual))
            } else {
                c < 0.
            }
        })
        .collect();
    let nrem = removed.iter().filter(|&&b| b).count();
    let fam = format!("{}_{}", fam, if ties > 0 && ok.is_err() { "tiepanic" } else if ties > 0 { "tie" } else if nrem == 0 { "nocut" } else { "cut" });
    // permutations: all permutations of the removed vertices' positions when few, sampled otherwise;
    // kept vertices are shuffled along
    let rem_idx: Vec<usize> = (0..nv).filter(|&i| removed[i]).collect();
    let mut orders: Vec<Vec<usize>> = vec![(0..nv).collect()];
    if nrem == 0 {
        let mut ord: Vec<usize> = (0..nv).collect();
        rng.shuffle(&mut ord);
        orders.push(ord);
    } else if nrem <= max_exhaustive {
        let mut p: Vec<usize> = (0..nrem).collect();
        loop {
            // place the removed vertices, in order p, into a random arrangement of all slots
            let mut ord: Vec<usize> = (0..nv).collect();
            rng.shuffle(&mut ord);
            let slots: Vec<usize> = (0..nv).filter(|&s| removed[ord[s]]).collect();
            for (k, &s) in slots.iter().enumerate() {
                ord[s] = rem_idx[p[k]];
            }
            orders.push(ord);
            if !next_perm(&mut p) {
                break;
            }
        }
    } else {
        for _ in 0..sampled {
            let mut ord: Vec<usize> = (0..nv).collect();
            rng.shuffle(&mut ord);
            orders.push(ord);
        }
    }
    for (k, ord) in orders.iter().enumerate() {
        let mut cell = sc.cell.clone();
        let mut input = format!("S {} {} {} {}", sid, k, sc.cell.clipping_planes.len(), nv);
        let mut verts = vec![];
        for &i in ord {
            let mut v = sc.cell.vertices[i].clone();
            let rot = if k == 0 { 0 } else { rng.below(3) };
            for _ in 0..rot {
                v.dual = [v.dual[1], v.dual[2], v.dual[0]];
            }
            input.push_str(&format!(" {} {} {} {}", v.dual[0], v.dual[1], v.dual[2], removed[i] as u8));
            verts.push(v);
        }
        cell.vertices = verts;
        // every other permutation of a 3D cell goes through with_faces().discard_faces() first: the cell that comes back must
        // clip exactly like the one that went in
        if k % 2 == 1 && sc.is3d {
            let c2 = cell.clone();
            if let Ok(rt) = guarded(std::panic::AssertUnwindSafe(move || c2.with_faces().discard_faces())) {
                cell = rt;
            }
        }
        input.push_str(&format!(" BV {}", fx(sc.boxvol)));
        let hs = sc.hs.clone();
        let res = guarded(std::panic::AssertUnwindSafe(|| {
            vh::cell_clip(&mut cell, hs, &sc.gens, &sc.boundary);
            result_tokens(&cell)
        }));
        let res = match res {
            Ok(s) => s,
            Err(e) => e,
        };
        out.rec("clipperm", &fam, &input, &res);
    }
}

pub fn run(out: &mut Out, rng: &mut Rng, thorough: bool) {
    let reps = if thorough { 40 } else { 10 };
    let (max_ex, sampled) = if thorough { (7, 200) } else { (5, 20) };
    let mut sid = 0;
    for _ in 0..reps {
        for fam in ["uniform", "lattice", "cluster", "coplanar", "cospherical_lattice", "on_boundary"] {
            for (dim, periodic) in [(3usize, false), (3, true), (2, false), (2, true), (1, false)] {
                if dim < 3 && rng.chance(0.6) {
                    continue;
                }
                let n = 6 + rng.below(24) as usize;
                let inp = gen::make(rng, fam, dim, periodic, n);
                let mut r2 = rng.fork(11);
                let sc = guarded(std::panic::AssertUnwindSafe(|| scenario(&inp, &mut r2)));
                if let Ok(Some(sc)) = sc {
                    // quick: cap exhaustive sets harder for scenarios with many removed vertices
                    emit_scenario(out, &inp.family, sid, &sc, &mut r2, max_ex, sampled);
                    sid += 1;
                }
            }
        }
    }
    // tiny periodic boxes of dyadic points (2 … 6 generators at odd multiples of 1/8): one cell has planes towards several
    // images of the SAME generator and many decisions are exact ties - anything keyed by the neighbour's index alone confuses
    // the images, and which one it sees first depends on the storage order
    for round in 0..(if thorough { 8 } else { 3 }) {
        use glam::DVec3;
        let k = 2 + rng.below(5) as usize;
        let mut gens: Vec<DVec3> = vec![];
        if round == 0 {
            // corpus entry (seeded change C18g): five generators on which six of the builder's 77 clips see two images of one
            // generator in exact ties
            gens = [[3., 5., 1.], [1., 5., 3.], [5., 1., 3.], [5., 3., 3.], [1., 7., 3.]].iter().map(|c| DVec3::from_array(*c) / 8.).collect();
        }
        while gens.len() < k {
            let p = DVec3::new((2 * rng.below(4) + 1) as f64 / 8., (2 * rng.below(4) + 1) as f64 / 8., (2 * rng.below(4) + 1) as f64 / 8.);
            if !gens.contains(&p) {
                gens.push(p);
            }
        }
        let inp = Input { family: "dyadic3p_unit_z".to_string(), dim: 3, periodic: true, anchor: DVec3::ZERO, width: DVec3::ONE, gens };
        // every clip of every cell (the first 24 candidates), not a sample
        for idx in 0..inp.gens.len() {
            for m in 0..24 {
                let mut r2 = rng.fork(23);
                let sc = guarded(std::panic::AssertUnwindSafe(|| scenario_at(&inp, Some(idx), Some(m), &mut r2)));
                if let Ok(Some(sc)) = sc {
                    emit_scenario(out, &inp.family, sid, &sc, &mut r2, 3, if thorough { 48 } else { 24 });
                    sid += 1;
                }
            }
        }
    }
    // cells with many planes: the index of the new plane crosses 16, 32, 64, 128
    let shells = if thorough { 6 } else { 2 };
    for _ in 0..shells {
        let inp = shell_input(rng, 140);
        for target in [16usize, 32, 64, 128] {
            for delta in [0usize, 1, 2] {
                // `m` neighbours before the permuted clip: 6 walls + m planes already there, the new plane gets index 6 + m
                let m = target + delta - 7;
                let mut r2 = rng.fork(17);
                let sc = guarded(std::panic::AssertUnwindSafe(|| shell_scenario(&inp, m)));
                if let Ok(Some(sc)) = sc {
                    emit_scenario(out, &inp.family, sid, &sc, &mut r2, 3, if thorough { 40 } else { 8 });
                    sid += 1;
                }
            }
        }
    }
    // one clip with a long boundary cycle (a k-sided prism loses its whole top)
    for k in if thorough { vec![12usize, 31, 32, 33, 48, 64, 100, 257] } else { vec![31usize, 33, 70] } {
        let inp = ring_cap_input(rng, k);
        let mut r2 = rng.fork(19);
        let sc = guarded(std::panic::AssertUnwindSafe(|| ring_cap_scenario(&inp)));
        if let Ok(Some(sc)) = sc {
            emit_scenario(out, &inp.family, sid, &sc, &mut r2, 2, if thorough { 12 } else { 4 });
            sid += 1;
        }
    }
}

// ------------------------------------------------------------------------------------------------
// op `cycle`
// ------------------------------------------------------------------------------------------------

pub fn run_cycle(out: &mut Out, rng: &mut Rng, thorough: bool) {
    let reps = if thorough { 3000 } else { 300 };
    for _ in 0..reps {
        // mostly small cycles; one in five starts just below a power of two and grows across it
        let big = rng.chance(0.2);
        let mut cap = if big { [13usize, 29, 61, 125, 253][rng.below(5) as usize] + rng.below(3) as usize } else { 3 + rng.below(9) as usize };
        let mut cyc = vh::Cycle::new(cap);
        let mut input = format!("{}", cap);
        let mut res = String::new();
        let nops = if big { 20 + rng.below(40) } else { 1 + rng.below(30) };
        let mut inited = false;
        let mut panicked = false;
        for _ in 0..nops {
            let distinct3 = |rng: &mut Rng, cap: usize| -> [usize; 3] {
                let mut v: Vec<usize> = (0..cap).collect();
                rng.shuffle(&mut v);
                [v[0], v[1], v[2]]
            };
            let kind = if !inited { 1 } else if big && rng.chance(0.3) { 0 } else { rng.below(10) };
            match kind {
                0 => {
                    cyc.grow();
                    cap += 1;
                    input.push_str(" g");
                    res.push_str(" g");
                }
                1 => {
                    let t = distinct3(rng, cap);
                    cyc.init(t[0], t[1], t[2]);
                    inited = true;
                    input.push_str(&format!(" i {} {} {}", t[0], t[1], t[2]));
                    res.push_str(&format!(" i{}", cyc.len()));
                }
                2 => {
                    let w = cyc.walk();
                    input.push_str(" w");
                    res.push_str(&format!(" w{}", w.iter().map(|x| x.to_string()).collect::<Vec<_>>().join(",")));
                }
                _ => {
                    // mostly attachable triangles: pick an edge (x -> y) of the cycle, then either a fresh apex
                    // (case 1, triangle (apex, y, x) in some rotation) or its successor (case 2), or garbage
                    let w = cyc.walk();
                    let t = if w.len() >= 3 && !rng.chance(0.2) {
                        let k = rng.below((w.len() - 1) as u64) as usize;
                        let (x, y) = (w[k], w[k + 1]);
                        let third = if rng.chance(0.6) {
                            // a vertex not on the cycle, if any
                            let off: Vec<usize> = (0..cap).filter(|i| !w.contains(i)).collect();
                            if off.is_empty() {
                                w[(k + 2) % (w.len() - 1)]
                            } else if big && rng.chance(0.6) {
                                // the most recently grown entries
                                off[off.len() - 1 - rng.below(off.len().min(3) as u64) as usize]
                            } else {
                                off[rng.below(off.len() as u64) as usize]
                            }
                        } else {
                            w[(k + 2) % (w.len() - 1)]
                        };
                        // the triangle must traverse the shared edge backwards: (y, x, third)
                        let mut t = [y, x, third];
                        if rng.chance(0.15) {
                            t = [x, y, third]; // wrong orientation: must be refused (or not) identically
                        }
                        let r = rng.below(3);
                        for _ in 0..r {
                            t = [t[1], t[2], t[0]];
                        }
                        t
                    } else {
                        distinct3(rng, cap)
                    };
                    if t[0] == t[1] || t[1] == t[2] || t[0] == t[2] {
                        continue;
                    }
                    let lenb = cyc.len();
                    if lenb <= 3 && w.contains(&t[0]) && w.contains(&t[1]) && w.contains(&t[2]) {
                        // would shrink the cycle below a triangle: never happens in clip_by_plane
                        // (the closing triangle is excluded by the caller); the 2-cycle state is meaningless
                        continue;
                    }
                    let r = guarded(std::panic::AssertUnwindSafe(|| cyc.try_extend(t[0], t[1], t[2])));
                    input.push_str(&format!(" e {} {} {}", t[0], t[1], t[2]));
                    match r {
                        Ok(b) => res.push_str(&format!(" e{}:{}", b as u8, cyc.len())),
                        Err(e) => {
                            res.push_str(&format!(" {}", e));
                            panicked = true;
                        }
                    }
                }
            }
            if panicked {
                break;
            }
        }
        if !panicked {
            let w = cyc.walk();
            input.push_str(" w");
            res.push_str(&format!(" w{}", w.iter().map(|x| x.to_string()).collect::<Vec<_>>().join(",")));
        }
        out.rec("cycle", "randops", &input, res.trim_start());
    }
}

// ------------------------------------------------------------------------------------------------
// op `clip1` (C05): isolated filter ties.  For every vertex of a reachable cell on which the float filter of
// the next bisector returns 0, the record carries the five integer grid points the exact predicate is
// evaluated on and whether the real `clip_by_plane` removed the vertex.
// ------------------------------------------------------------------------------------------------

pub fn run_clip1(out: &mut Out, rng: &mut Rng, thorough: bool) {
    let reps = if thorough { 60 } else { 8 };
    for _ in 0..reps {
        for fam in ["lattice", "lattice_wall", "cospherical_lattice", "pythagorean", "on_boundary", "coplanar", "uniform"] {
            for (dim, periodic) in [(3usize, false), (3, true), (2, false), (2, true)] {
                let n = 6 + rng.below(24) as usize;
                let inp = gen::make(rng, fam, dim, periodic, n);
                let mut r2 = rng.fork(13);
                let sc = match guarded(std::panic::AssertUnwindSafe(|| scenario(&inp, &mut r2))) {
                    Ok(Some(sc)) => sc,
                    _ => continue,
                };
                // every vertex is reported; `tie` says whether the float filter of this build asked for the exact predicate
                let ties: Vec<usize> = (0..sc.cell.vertices.len()).filter(|&i| sc.hs.clip(sc.cell.vertices[i].loc) == 0.).collect();
                let all: Vec<usize> = (0..sc.cell.vertices.len()).collect();
                let mut reference = sc.cell.clone();
                meshless_voronoi::verif_hooks::reset_exact_test_count();
                let ok = guarded(std::panic::AssertUnwindSafe(|| vh::cell_clip(&mut reference, sc.hs.clone(), &sc.gens, &sc.boundary)));
                let calls = meshless_voronoi::verif_hooks::exact_test_count();
                if ok.is_err() {
                    // the panic itself is C05's business in the cells/tess ops; no decision can be read off
                    continue;
                }
                let kept: std::collections::HashSet<[usize; 3]> = reference.vertices.iter().map(|v| canon(v.dual)).collect();
                let idx = sc.cell.idx;
                for &i in &all {
                    let v = &sc.cell.vertices[i];
                    let is_tie = ties.contains(&i);
                    let pts = [
                        sc.cell.loc,
                        sc.cell.clipping_planes[v.dual[0]].right_loc(idx, &sc.gens),
                        sc.cell.clipping_planes[v.dual[1]].right_loc(idx, &sc.gens),
                        sc.cell.clipping_planes[v.dual[2]].right_loc(idx, &sc.gens),
                        sc.hs.right_loc(idx, &sc.gens),
                    ];
                    let mut s = String::new();
                    let mut range_ok = true;
                    for p in pts {
                        match sc.boundary.iloc_checked(p) {
                            Ok(q) => s.push_str(&format!("{} {} {} ", q[0], q[1], q[2])),
                            Err(_) => range_ok = false,
                        }
                    }
                    if !range_ok {
                        out.rec("clip1", &inp.family, "0 0 0 0 0 0 0 0 0 0 0 0 0 0 0", "RANGE");
                        continue;
                    }
                    let removed = !kept.contains(&canon(v.dual));
                    // conditioning of the vertex position: determinant of its three unit plane normals
                    let nd = glam::DMat3::from_cols(
                        sc.cell.clipping_planes[v.dual[0]].normal(),
                        sc.cell.clipping_planes[v.dual[1]].normal(),
                        sc.cell.clipping_planes[v.dual[2]].normal(),
                    )
                    .determinant();
                    out.rec("clip1", &inp.family, s.trim_end(), &format!("{} {} {} {} {}", if removed { "removed" } else { "kept" }, ties.len(), calls, if is_tie { "tie" } else { "clear" }, fx(nd)));
                }
            }
        }
    }
}
