//! op `lowdim` (C08): 1D / 2D builds with different contents of the unused coordinates, and the 3D
//! build of the same generators in a slab / bar of unit thickness.
use crate::gen::{self, Input};
use crate::proto::{guarded, Out};
use crate::rng::Rng;
use meshless_voronoi::Voronoi;

fn vor(inp: &Input) -> String {
    let inp = inp.clone();
    guarded(move || crate::ser::voronoi(&Voronoi::build(&inp.gens, inp.anchor, inp.width, inp.dimensionality(), inp.periodic))).unwrap_or_else(|e| e)
}

/// face integrals through the integrator (non-symmetric and symmetric): `FN k {left right shift area centroid} FS k {...}`
fn integrator_faces(inp: &Input) -> String {
    use meshless_voronoi::integrals::AreaCentroidIntegral;
    let inp = inp.clone();
    guarded(move || {
        let vi = meshless_voronoi::VoronoiIntegrator::build(&inp.gens, None, inp.anchor, inp.width, inp.dimensionality(), inp.periodic);
        let mut s = String::new();
        for (tag, fs) in [("FN", vi.compute_face_integrals::<AreaCentroidIntegral>()), ("FS", vi.compute_face_integrals_sym::<AreaCentroidIntegral>())] {
            s.push_str(&format!("{} {}", tag, fs.len()));
            for f in &fs {
                s.push_str(&format!(" {} {} {}", crate::ser::face_header(f), crate::proto::fx(f.integral().area), crate::proto::v3(f.integral().centroid)));
            }
            s.push(' ');
        }
        s.trim_end().to_string()
    })
    .unwrap_or_else(|e| e)
}

/// copies: `Clone` is part of the public API of `VoronoiIntegrator` and `ConvexCell`; whatever is computed from a copy (of the
/// integrator, possibly on another thread, or of a single cell) must be what is computed from the original:
/// `CL <integrator copy> <cell copies>` (1 = bitwise the same)
fn clone_routes(inp: &Input) -> String {
    use meshless_voronoi::integrals::AreaCentroidIntegral;
    let inp = inp.clone();
    guarded(move || {
        let vi = meshless_voronoi::VoronoiIntegrator::build(&inp.gens, None, inp.anchor, inp.width, inp.dimensionality(), inp.periodic);
        let faces = |vi: &meshless_voronoi::VoronoiIntegrator<_>| -> String {
            let mut s = crate::ser::voronoi(&Voronoi::from(vi));
            for f in vi.compute_face_integrals::<AreaCentroidIntegral>() {
                s.push_str(&format!(" {} {} {}", crate::ser::face_header(&f), crate::proto::fx(f.integral().area), crate::proto::v3(f.integral().centroid)));
            }
            s
        };
        let a = faces(&vi);
        let copy = vi.clone();
        let b = std::thread::spawn(move || faces(&copy)).join().unwrap_or_default();
        let mut cells_same = true;
        for c in vi.cells_iter() {
            let x = c.compute_face_integrals::<(), AreaCentroidIntegral>(());
            let y = c.clone().compute_face_integrals::<(), AreaCentroidIntegral>(());
            let tok = |fs: &Vec<meshless_voronoi::integrals::FaceIntegrator<AreaCentroidIntegral>>| -> String { fs.iter().map(|f| format!("{} {} {}", crate::ser::face_header(f), crate::proto::fx(f.integral().area), crate::proto::v3(f.integral().centroid))).collect::<Vec<_>>().join(" ") };
            if tok(&x) != tok(&y) {
                cells_same = false;
            }
        }
        format!("CL {} {}", (a == b) as u8, cells_same as u8)
    })
    .unwrap_or_else(|_| "CL P P".to_string())
}

pub fn run(out: &mut Out, rng: &mut Rng, thorough: bool) {
    let reps = if thorough { 12 } else { 2 };
    for _ in 0..reps {
        for fam in ["uniform", "lattice", "cluster", "on_boundary", "pair", "single", "lattice_wall", "collinear", "cospherical"] {
            for dim in [1usize, 2] {
                for periodic in [false, true] {
                    let n = 1 + rng.below(if dim == 1 { 30 } else { 16 }) as usize;
                    let a = gen::make(rng, fam, dim, periodic, n);
                    // same active coordinates, different rubbish in the unused ones
                    let mut b = a.clone();
                    let junk = |rng: &mut Rng| -> f64 { [0.0, -0.0, 17.25, -1e12, 3e-20, 0.5][rng.below(6) as usize] + rng.f64() * 1e-3 };
                    for g in b.gens.iter_mut() {
                        g.z = junk(rng);
                        if dim == 1 {
                            g.y = junk(rng);
                        }
                    }
                    b.anchor.z = junk(rng);
                    b.width.z = junk(rng).abs() + 0.25;
                    if dim == 1 {
                        b.anchor.y = junk(rng);
                        b.width.y = junk(rng).abs() + 0.25;
                    }
                    // the embedding in 3D: unused coordinates 0, box [-1/2, 1/2] along unused axes
                    let mut c = a.clone();
                    c.dim = 3;
                    for g in c.gens.iter_mut() {
                        g.z = 0.;
                        if dim == 1 {
                            g.y = 0.;
                        }
                    }
                    c.anchor.z = -0.5;
                    c.width.z = 1.;
                    if dim == 1 {
                        c.anchor.y = -0.5;
                        c.width.y = 1.;
                    }
                    out.rec("lowdim", &a.family, &format!("{} B {}", a.tokens(), b.tokens()), &format!("A {} B {} C {} I {} {}", vor(&a), vor(&b), vor(&c), integrator_faces(&a), clone_routes(&a)));
                }
            }
        }
    }
}
