//! op `tess`: full / partial tessellations through the public API on all input families.
use crate::gen::{self, Input};
use crate::proto::{guarded, Out};
use crate::rng::Rng;
use meshless_voronoi::Voronoi;

pub fn mask_tokens(mask: &Option<Vec<bool>>) -> String {
    match mask {
        None => "M -".to_string(),
        Some(m) => format!("M {}", m.iter().map(|&b| if b { '1' } else { '0' }).collect::<String>()),
    }
}

pub fn build(inp: &Input, mask: &Option<Vec<bool>>) -> Result<Voronoi, String> {
    let inp = inp.clone();
    let mask = mask.clone();
    guarded(move || match &mask {
        None => Voronoi::build(&inp.gens, inp.anchor, inp.width, inp.dimensionality(), inp.periodic),
        Some(m) => Voronoi::build_partial(&inp.gens, m, inp.anchor, inp.width, inp.dimensionality(), inp.periodic),
    })
}

pub fn emit(out: &mut Out, op: &str, inp: &Input, mask: &Option<Vec<bool>>) {
    meshless_voronoi::verif_hooks::reset_exact_test_count();
    let res = match build(inp, mask) {
        Ok(v) => crate::ser::voronoi(&v),
        Err(e) => e,
    };
    let exact = meshless_voronoi::verif_hooks::exact_test_count_global();
    out.rec(op, &inp.family, &format!("{} {}", inp.tokens(), mask_tokens(mask)), &format!("X {} {}", exact, res));
}

pub fn sizes(dim: usize, thorough: bool, rng: &mut Rng) -> usize {
    let hi = match (dim, thorough) {
        (3, false) => 9,
        (3, true) => 16,
        (2, false) => 14,
        (2, true) => 30,
        (_, false) => 12,
        (_, true) => 40,
    };
    2 + rng.below(hi as u64 - 1) as usize
}

pub fn run(out: &mut Out, rng: &mut Rng, thorough: bool) {
    let reps = if thorough { 8 } else { 1 };
    for rep in 0..reps {
        for fam in gen::FAMILIES {
            for dim in [3usize, 2, 1] {
                for periodic in [false, true] {
                    // quick: thin out the 1D/2D grid a little
                    if !thorough && dim < 3 && rng.chance(0.4) {
                        continue;
                    }
                    let n = sizes(dim, thorough, rng);
                    let inp = gen::make(rng, fam, dim, periodic, n);
                    let mask = if rep % 2 == 1 || rng.chance(0.25) { Some(gen::make_mask(rng, inp.gens.len())) } else { None };
                    emit(out, "tess", &inp, &mask);
                }
            }
        }
    }
}

/// op `bigtess`: tessellations with one very large cell (a generator in a void inside a dense shell: hundreds of clipping
/// planes, faces and vertices) or very uneven density.  Same record format as `tess`; too large for the exact oracle, so only
/// the relations a tessellation must satisfy by itself are examined (C04: normals, centroids on planes, closure, divergence).
pub fn run_big(out: &mut Out, rng: &mut Rng, thorough: bool) {
    let reps = if thorough { 3 } else { 1 };
    for _ in 0..reps {
        for (fam, dim, periodic, n) in [
            ("void_shell", 3usize, false, 150usize),
            ("void_shell", 3, false, 330),
            ("void_shell", 3, true, 260),
            ("void_shell", 2, false, 300),
            ("blob_isolated", 3, true, 200),
            ("blob_isolated", 2, false, 500),
        ] {
            let n = n + rng.below(40) as usize;
            let inp = gen::make(rng, fam, dim, periodic, n);
            let mask = if rng.chance(0.3) {
                let mut m = gen::make_mask(rng, inp.gens.len());
                m[0] = true;
                Some(m)
            } else {
                None
            };
            emit(out, "bigtess", &inp, &mask);
        }
    }
}
