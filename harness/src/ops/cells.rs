//! op `cells`: per-cell results through `VoronoiIntegrator` (volume, centroid, safety radius,
//! all faces of every cell seen from that cell, vertices) on all input families.
use crate::gen::{self, Input};
use crate::proto::{fx, guarded, opt_usize, opt_v3, v3, Out};
use crate::rng::Rng;
use meshless_voronoi::integrals::{AreaCentroidIntegral, VolumeCentroidIntegral};
use meshless_voronoi::VoronoiIntegrator;

pub fn run_one(inp: &Input, mask: &Option<Vec<bool>>) -> Result<String, String> {
    let inp = inp.clone();
    let mask = mask.clone();
    guarded(move || {
        let vi = VoronoiIntegrator::build(&inp.gens, mask.as_deref(), inp.anchor, inp.width, inp.dimensionality(), inp.periodic);
        let mut s = String::from("OK");
        let n_active = vi.cells_iter().count();
        s.push_str(&format!(" NC {}", n_active));
        for cell in vi.cells_iter() {
            let vc = cell.compute_cell_integral::<(), VolumeCentroidIntegral>(());
            let faces = cell.compute_face_integrals::<(), AreaCentroidIntegral>(());
            s.push_str(&format!(" C {} {} {} {} {} NF {}", cell.idx, fx(vc.volume), v3(vc.centroid), v3(cell.loc), cell.clipping_planes.len(), faces.len()));
            for f in &faces {
                s.push_str(&format!(" F {} {} {} {}", opt_usize(f.right()), opt_v3(f.shift()), fx(f.integral().area), v3(f.integral().centroid)));
            }
            s.push_str(&format!(" NV {}", cell.vertices.len()));
            for v in &cell.vertices {
                s.push_str(&format!(" {} {} {} {}", v3(v.loc), v.dual[0], v.dual[1], v.dual[2]));
            }
            s.push_str(&format!(" NP {}", cell.clipping_planes.len()));
            for h in &cell.clipping_planes {
                s.push_str(&format!(" {} {}", v3(h.plane.n), v3(h.plane.p)));
            }
        }
        // safety radii are only exposed through the compact representation
        let vor = meshless_voronoi::Voronoi::from(&vi);
        s.push_str(" SR");
        for c in vor.cells() {
            s.push_str(&format!(" {}", fx(c.safety_radius())));
        }
        s
    })
}

pub fn emit(out: &mut Out, inp: &Input, mask: &Option<Vec<bool>>, flags: &str) {
    meshless_voronoi::verif_hooks::reset_exact_test_count();
    let res = match run_one(inp, mask) {
        Ok(s) => s,
        Err(e) => e,
    };
    let exact = meshless_voronoi::verif_hooks::exact_test_count_global();
    out.rec("cells", &inp.family, &format!("{} {} {}", inp.tokens(), super::tess::mask_tokens(mask), flags), &format!("X {} {}", exact, res));
}

pub fn run(out: &mut Out, rng: &mut Rng, thorough: bool) {
    let reps = if thorough { 10 } else { 1 };
    for rep in 0..reps {
        for fam in gen::FAMILIES {
            for dim in [3usize, 2, 1] {
                for periodic in [false, true] {
                    if !thorough && dim < 3 && rng.chance(0.3) {
                        continue;
                    }
                    let n = super::tess::sizes(dim, thorough, rng);
                    let inp = gen::make(rng, fam, dim, periodic, n);
                    let mask = if rep % 3 == 2 { Some(gen::make_mask(rng, inp.gens.len())) } else { None };
                    emit(out, &inp, &mask, "brute verts");
                }
            }
        }
        // a clump in a CUBIC periodic box: the far images across the body diagonal (1.73 box lengths away) bound the cells
        for _ in 0..2 {
            let mut inp = gen::make(rng, "clump", 3, true, 9);
            for _ in 0..8 {
                if inp.family.contains("_unit_") || inp.family.contains("_cube12_") {
                    break;
                }
                inp = gen::make(rng, "clump", 3, true, 9);
            }
            emit(out, &inp, &None, "brute verts");
        }
    }
}

/// op `cellsin`: the `cells` computation on inputs read from a file (one input per line, protocol tokens
/// `dim periodic anchor(3) width(3) n gens(3n) M mask`); used for replays and experiments.
pub fn run_file(out: &mut Out, path: &str) {
    let text = std::fs::read_to_string(path).expect("input file");
    for line in text.lines() {
        let t: Vec<&str> = line.split_whitespace().collect();
        if t.len() < 9 {
            continue;
        }
        let f = |s: &str| f64::from_bits(u64::from_str_radix(s, 16).expect("hex float"));
        let v = |i: usize| glam::DVec3::new(f(t[i]), f(t[i + 1]), f(t[i + 2]));
        let dim: usize = t[0].parse().unwrap();
        let periodic = t[1] == "1";
        let n: usize = t[8].parse().unwrap();
        let gens: Vec<glam::DVec3> = (0..n).map(|k| v(9 + 3 * k)).collect();
        let mut mask = None;
        let mi = 9 + 3 * n;
        if t.len() > mi + 1 && t[mi] == "M" && t[mi + 1] != "-" {
            mask = Some(t[mi + 1].chars().map(|c| c == '1').collect::<Vec<bool>>());
        }
        let inp = Input { family: "file".to_string(), dim, periodic, anchor: v(2), width: v(5), gens };
        emit(out, &inp, &mask, "brute verts");
    }
}
