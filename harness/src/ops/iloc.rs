//! op `iloc` (C10, C05): the map from positions to the integer grid on every kind of position the
//! algorithm can query: generators in the closed box (walls, edges, corners included), their
//! mirror images through the six walls, periodic images.
use crate::gen;
use crate::proto::{fx, guarded, v3, Out};
use crate::rng::Rng;
use glam::DVec3;
use meshless_voronoi::verif_hooks as vh;
use meshless_voronoi::Dimensionality;

pub fn run(out: &mut Out, rng: &mut Rng, thorough: bool) {
    let nbox = if thorough { 200 } else { 30 };
    for _ in 0..nbox {
        let (anchor, width, boxname) = gen::random_box(rng);
        for periodic in [false, true] {
            for dim in [3usize, 2, 1] {
                let dimensionality = match dim {
                    1 => Dimensionality::OneD,
                    2 => Dimensionality::TwoD,
                    _ => Dimensionality::ThreeD,
                };
                // what the builders do first
                let mut a = anchor;
                let mut w = width;
                if dim == 1 {
                    a.y = -0.5;
                    w.y = 1.;
                }
                if dim <= 2 {
                    a.z = -0.5;
                    w.z = 1.;
                }
                let b = match guarded(move || vh::Boundary::cuboid(a, w, periodic, dimensionality)) {
                    Ok(b) => b,
                    Err(_) => continue,
                };
                for k in 0..(if thorough { 12 } else { 6 }) {
                    // a generator position: interior, or with some coordinates exactly on a wall
                    let mut t = DVec3::new(rng.f64(), rng.f64(), rng.f64());
                    if k % 2 == 0 {
                        for ax in 0..3 {
                            match rng.below(4) {
                                0 => t[ax] = 0.0,
                                1 => t[ax] = 1.0,
                                _ => (),
                            }
                        }
                    }
                    let mut g = a + w * t;
                    for ax in 0..3 {
                        if t[ax] == 0.0 {
                            g[ax] = a[ax];
                        }
                        if t[ax] == 1.0 {
                            g[ax] = a[ax] + w[ax];
                        }
                        if ax >= dim {
                            g[ax] = 0.0;
                        }
                    }
                    let mut positions: Vec<(String, DVec3)> = vec![("gen".into(), g)];
                    // mirror images through the walls of the (tripled) box, exactly as HalfSpace::right_loc computes them
                    for (pi, h) in b.clipping_planes().iter().enumerate() {
                        let projected = h.plane.project_onto(g);
                        positions.push((format!("mirror{}", pi), 2. * projected - g));
                    }
                    if periodic {
                        for i in -1..=1 {
                            for j in -1..=1 {
                                for kk in -1..=1 {
                                    if (dim < 2 && j != 0) || (dim < 3 && kk != 0) {
                                        continue;
                                    }
                                    let s = DVec3::new(i as f64 * w.x, j as f64 * w.y, kk as f64 * w.z);
                                    positions.push(("image".into(), g + s));
                                }
                            }
                        }
                    }
                    for (kind, p) in positions {
                        let r = b.rescaled(p);
                        let res = match b.iloc_checked(p) {
                            Ok(i) => format!("OK {} {} {} R {}", i[0], i[1], i[2], v3(r)),
                            Err(r) => format!("RANGE {}", v3(r)),
                        };
                        out.rec(
                            "iloc",
                            &format!("{}_{}{}{}", kind, boxname, dim, if periodic { "p" } else { "r" }),
                            &format!("{} {} {} {} {} {}", dim, periodic as u8, v3(a), v3(w), v3(p), fx(0.0)),
                            &res,
                        );
                    }
                }
            }
        }
    }
}
