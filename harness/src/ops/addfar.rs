//! op `addfar` (C16): a cell must not change when generators are added outside its safety ball.
use crate::gen::{self, Input};
use crate::proto::{fx, guarded, opt_usize, v3, Out};
use crate::rng::Rng;
use glam::DVec3;
use meshless_voronoi::Voronoi;

/// `vol cx cy cz sr lx ly lz  NF {right shift-hash area cx cy cz}` of cell `idx`
fn cell_tokens(v: &Voronoi, idx: usize) -> String {
    let c = &v.cells()[idx];
    let mut s = format!("{} {} {} {}", fx(c.volume()), v3(c.centroid()), fx(c.safety_radius()), v3(c.loc()));
    let faces: Vec<_> = c.faces(v).collect();
    s.push_str(&format!(" {}", faces.len()));
    for f in faces {
        let other = if f.left() == idx { f.right() } else { Some(f.left()) };
        let sh = match f.shift() {
            None => "N".to_string(),
            Some(s) => format!("{}:{}:{}", fx(s.x), fx(s.y), fx(s.z)),
        };
        s.push_str(&format!(" {} {} {} {}", opt_usize(other), sh, fx(f.area()), v3(f.centroid())));
    }
    s
}

pub fn run(out: &mut Out, rng: &mut Rng, thorough: bool) {
    let reps = if thorough { 12 } else { 2 };
    for _ in 0..reps {
        for fam in ["uniform", "cluster", "lattice", "coplanar"] {
            for dim in [3usize, 2, 1] {
                for periodic in [false, true] {
                    let n = 6 + rng.below(if thorough { 60 } else { 20 }) as usize;
                    let inp = gen::make(rng, fam, dim, periodic, n);
                    let mut r2 = rng.fork(7);
                    let inp2 = inp.clone();
                    let res = guarded(move || one(&inp2, &mut r2));
                    let (input, res) = match res {
                        Ok((i, r)) => (i, r),
                        Err(e) => (inp.tokens(), e),
                    };
                    out.rec("addfar", &inp.family, &input, &res);
                }
            }
        }
    }
}

fn one(inp: &Input, rng: &mut Rng) -> (String, String) {
    let v = Voronoi::build(&inp.gens, inp.anchor, inp.width, inp.dimensionality(), inp.periodic);
    let n = inp.gens.len();
    // the cell with the smallest safety radius leaves the most room
    let idx = (0..n).min_by(|&a, &b| v.cells()[a].safety_radius().partial_cmp(&v.cells()[b].safety_radius()).unwrap()).unwrap();
    let sr = v.cells()[idx].safety_radius();
    let g = v.cells()[idx].loc();
    let before = cell_tokens(&v, idx);
    // candidates: random points of the box farther than the safety radius from g and from all its periodic images
    let mut extra = vec![];
    for _ in 0..400 {
        if extra.len() >= 12 {
            break;
        }
        let mut p = inp.anchor + inp.width * DVec3::new(rng.f64(), rng.f64(), rng.f64());
        for ax in inp.dim..3 {
            p[ax] = 0.0;
        }
        let mut dmin = f64::INFINITY;
        let r: &[i32] = if inp.periodic { &[-1, 0, 1] } else { &[0] };
        for &i in r {
            for &j in r {
                for &k in r {
                    let mut s = DVec3::new(i as f64, j as f64, k as f64) * inp.width;
                    for ax in inp.dim..3 {
                        s[ax] = 0.0;
                    }
                    let mut gg = g;
                    for ax in inp.dim..3 {
                        gg[ax] = 0.0;
                    }
                    dmin = dmin.min((p + s - gg).length());
                }
            }
        }
        if dmin > sr * (1.0 + 1e-9) {
            extra.push(p);
        }
    }
    let mut gens = inp.gens.clone();
    gens.extend(extra.iter().cloned());
    let mut inp2 = inp.clone();
    inp2.gens = gens;
    inp2.sanitize();
    let k = inp2.gens.len() - n.min(inp2.gens.len());
    let v2 = Voronoi::build(&inp2.gens, inp.anchor, inp.width, inp.dimensionality(), inp.periodic);
    let after = cell_tokens(&v2, idx);
    (inp2.tokens(), format!("CELL {} ADDED {} BEFORE {} AFTER {}", idx, k, before, after))
}
