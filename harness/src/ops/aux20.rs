//! ops `knn` and `sphere` (C20): the internal uniform-grid k-NN search and the bounding-sphere solvers.
use crate::proto::{fx, guarded, v3, Out};
use crate::rng::Rng;
use glam::DVec3;
use meshless_voronoi::geometry::Sphere;
use meshless_voronoi::verif_hooks as vh;

fn box_shape(rng: &mut Rng) -> (DVec3, DVec3, &'static str) {
    match rng.below(8) {
        0 => (DVec3::ZERO, DVec3::ONE, "cube"),
        1 => (DVec3::splat(1.), DVec3::splat(2.), "cube12"),
        2 => (DVec3::new(-0.5, 2., 0.25), DVec3::new(1., 6., 1.), "slab"),
        3 => (DVec3::new(0., 0., 0.), DVec3::new(1.0 + 4. * rng.f64(), 0.5 + 3. * rng.f64(), 0.3 + 5. * rng.f64()), "randbox"),
        5 => (DVec3::new(0., 0., 0.), DVec3::new(1., 0.5, 2.), "tall"),
        6 => (DVec3::new(1., 1., 1.), DVec3::new(2., 3., 0.6), "thinz"),
        7 => (DVec3::new(0., 0., 0.), DVec3::new(1., 3., 1.), "anisocell"),
        // coordinates much larger than the spacing (distances must be formed from differences, not from |a|^2 + |b|^2 - 2 a.b)
        4 => (DVec3::new(3e6, -2e6, 5e6), DVec3::new(1., 2., 1.5), "farbox"),
        _ => (DVec3::new(3., -7., 11.), DVec3::new(8., 1., 2.5), "flat"),
    }
}

pub fn run_knn(out: &mut Out, rng: &mut Rng, thorough: bool) {
    let reps = if thorough { 1500 } else { 260 };
    for rep in 0..reps {
        let (mut anchor, mut width, mut bname) = box_shape(rng);
        if rep % 4 == 1 {
            // a grid with 4 x 6 x 4 (or permuted) non-cubic cells for the ring trap below
            let w = [DVec3::new(1.0, 1.3, 1.0), DVec3::new(1.3, 1.0, 1.0), DVec3::new(2.0, 2.0, 2.9)][rng.below(3) as usize];
            anchor = DVec3::new(0.25, -1.0, 3.0);
            width = w;
            bname = "trapbox";
        }
        let n = 2 + rng.below(if rep % 13 == 0 || bname == "anisocell" { 60 } else { 14 }) as usize;
        // grid cell size: from "one cell" to "many empty cells"
        // `anisocell`: cells of 0.5 x 1.5 x 0.5 (the ring bound must use the smallest width)
        // every eighth record: a grid much finer than the particle spacing (rings of empty cells between a particle and its
        // neighbours: "nothing found in this ring" is no reason to stop)
        let fine = rep % 8 == 6;
        let mcw = if bname == "trapbox" { width.min_element() / 4. } else if bname == "anisocell" { 1.5 } else if fine { width.max_element() * [0.05, 0.03, 0.02][rng.below(3) as usize] } else { width.max_element() * [1.5, 0.7, 0.4, 0.25, 0.13][rng.below(5) as usize] };
        let n = if fine && bname != "trapbox" && bname != "anisocell" { 2 + rng.below(5) as usize } else { n };
        let fam_pts = ["uniform", "cluster", "lattice", "line"][rng.below(4) as usize];
        let mut pts = vec![];
        for i in 0..n {
            let t = match fam_pts {
                "uniform" => DVec3::new(rng.f64(), rng.f64(), rng.f64()),
                "cluster" => DVec3::splat(0.3) + DVec3::new(rng.f64(), rng.f64(), rng.f64()) * if i % 2 == 0 { 0.01 } else { 0.6 },
                "lattice" => DVec3::new((rng.below(4) as f64 + 0.5) / 4., (rng.below(4) as f64 + 0.5) / 4., (rng.below(4) as f64 + 0.5) / 4.),
                _ => DVec3::new(0.5, (i as f64 + 0.5) / n as f64, 0.5),
            };
            let p = anchor + width * t;
            // keep strictly inside the half-open box
            let ok = (0..3).all(|a| p[a] - anchor[a] >= 0. && p[a] - anchor[a] < width[a]);
            if ok && !pts.contains(&p) {
                pts.push(p);
            }
        }
        let mut fam_pts = fam_pts;
        // adversarial "ring trap" for grids whose cells are not cubic: the true nearest neighbour sits two cells away along the
        // axis with the smallest cell width, a decoy inside the first ring is slightly farther; only a termination bound
        // that uses the smallest width keeps searching
        let cdim = (width / mcw).ceil();
        let cw = width / cdim;
        let (wmin, wmax) = (cw.min_element(), cw.max_element());
        if rep % 4 == 1 && wmin < 0.95 * wmax && cdim.min_element() >= 1. {
            let thin = if cw.x == wmin { 0 } else if cw.y == wmin { 1 } else { 2 };
            let wide = if cw.x == wmax { 0 } else if cw.y == wmax { 1 } else { 2 };
            if cdim[thin] >= 4. && cdim[wide] >= 3. {
                pts.clear();
                // p: middle of a cell, 1% below its upper face along the thin axis
                let cell = DVec3::new((cdim.x / 2.).floor(), (cdim.y / 2.).floor(), (cdim.z / 2.).floor());
                let mut pp = anchor + (cell + DVec3::splat(0.5)) * cw;
                pp[thin] = anchor[thin] + (cell[thin].min(cdim[thin] - 3.) + 0.99) * cw[thin];
                let mut q = pp;
                q[thin] += 1.02 * wmin;
                let h = 0.5 * (1.03 * wmin + 0.01 * wmin + wmax);
                let mut d = pp;
                d[wide] += if pp[wide] + h < anchor[wide] + width[wide] { h } else { -h };
                let inside = |x: DVec3| (0..3).all(|a| x[a] >= anchor[a] && x[a] < anchor[a] + width[a]);
                if inside(pp) && inside(q) && inside(d) && h > 1.02 * wmin && h < 0.01 * wmin + wmax {
                    pts.push(pp);
                    pts.push(d);
                    pts.push(q);
                    fam_pts = "ringtrap";
                }
            }
        }
        // coincident particles (distance exactly 0 between different particles): a particle never is its own neighbour
        if rep_dup(rng) && pts.len() >= 3 {
            let a = rng.below(pts.len() as u64) as usize;
            let b = (a + 1 + rng.below(pts.len() as u64 - 1) as usize) % pts.len();
            pts[b] = pts[a];
            if rng.bool() {
                let c = (b + 1) % pts.len();
                if c != a {
                    pts[c] = pts[a];
                }
            }
        }
        // adversarial "face trap" (every eighth record): a grid of 1 … 4 unit cells per axis; the particle sits 1 % below (or above)
        // an INNER face of its cell, its true nearest neighbour 1 % beyond that face, a decoy 40 % of a cell away inside the
        // same cell. Whatever the search assumes about which faces of a cell have neighbours behind them must be right for every
        // axis, every index and both directions
        let mut mcw = mcw;
        if rep % 8 == 2 {
            let cd = [1 + rng.below(4) as usize, 1 + rng.below(4) as usize, 1 + rng.below(4) as usize];
            let axes: Vec<usize> = (0..3).filter(|&a| cd[a] >= 2).collect();
            if !axes.is_empty() {
                let ax = axes[rng.below(axes.len() as u64) as usize];
                let cell = [rng.below(cd[0] as u64) as usize, rng.below(cd[1] as u64) as usize, rng.below(cd[2] as u64) as usize];
                // an inner face of that cell along `ax`: the upper one unless the cell is the last
                let upper = if cell[ax] + 1 >= cd[ax] { false } else if cell[ax] == 0 { true } else { rng.bool() };
                anchor = DVec3::new(-1.0, 2.0, 0.5);
                width = DVec3::new(cd[0] as f64, cd[1] as f64, cd[2] as f64);
                mcw = 1.0;
                bname = "facetrap";
                let mut pp = anchor + DVec3::new(cell[0] as f64 + 0.5, cell[1] as f64 + 0.5, cell[2] as f64 + 0.5);
                let face = anchor[ax] + (cell[ax] + if upper { 1 } else { 0 }) as f64;
                let sgn = if upper { 1.0 } else { -1.0 };
                pp[ax] = face - sgn * 0.01;
                let mut q = pp;
                q[ax] = face + sgn * 0.01;
                let mut d = pp;
                d[ax] = pp[ax] - sgn * 0.4;
                pts.clear();
                pts.push(pp);
                pts.push(d);
                pts.push(q);
                fam_pts = "ringtrap";
            }
        }
        if pts.len() < 2 {
            continue;
        }
        let k = if fam_pts == "ringtrap" { 1 } else { usize::MAX };
        let k = if k == 1 { 1 } else { match rng.below(4) {
            0 => 1,
            1 => pts.len() - 1,
            _ => 1 + rng.below((pts.len() - 1) as u64) as usize,
        }
        .min(pts.len() - 1) };
        let mut input = format!("{} {} {} {} {}", v3(anchor), v3(width), fx(mcw), k, pts.len());
        for p in &pts {
            input.push_str(&format!(" {}", v3(*p)));
        }
        let p2 = pts.clone();
        let res = guarded(move || {
            let nn = vh::space_knn(anchor, width, mcw, &p2, k);
            let mut s = String::from("OK");
            for l in nn {
                for i in l {
                    s.push_str(&format!(" {}", i));
                }
            }
            // the grid itself (the objects the theorems GridWF / RingWF / KnnFull speak about): dimensions, every cell's box, the cell
            // of every particle, and get_r_ring around the cells of two particles for r = 0 … max dimension + 1
            let (cdim, cells, cids, _) = vh::space_grid(anchor, width, mcw, &p2, &[]);
            // all rings of small grids; of large ones the first ten and the last two (the ring that still holds cells, the empty one after)
            let rmax = *cdim.iter().max().unwrap() as i32 + 1;
            let radii: Vec<i32> = if rmax <= 12 { (0..=rmax).collect() } else { (0..10).chain([rmax - 2, rmax - 1, rmax]).collect() };
            let mut req = vec![];
            for &c in [cids[0], cids[cids.len() / 2]].iter() {
                for &r in &radii {
                    req.push((c, r));
                }
            }
            let (_, _, _, rings) = vh::space_grid(anchor, width, mcw, &p2, &req);
            // boxes: of every cell for grids of at most 512 cells, otherwise of the cells that hold a particle
            let listed: Vec<usize> = if cells.len() <= 512 {
                (0..cells.len()).collect()
            } else {
                let mut v = cids.clone();
                v.sort();
                v.dedup();
                v
            };
            s.push_str(&format!(" GRID {} {} {} CELLS {}", cdim[0], cdim[1], cdim[2], listed.len()));
            for &c in &listed {
                s.push_str(&format!(" {} {} {}", c, v3(cells[c].0), v3(cells[c].1)));
            }
            s.push_str(&format!(" CIDS {}", cids.len()));
            for c in &cids {
                s.push_str(&format!(" {}", c));
            }
            s.push_str(&format!(" RINGS {}", req.len()));
            for ((c, r), ring) in req.iter().zip(rings.iter()) {
                s.push_str(&format!(" {} {} {}", c, r, ring.len()));
                for x in ring {
                    s.push_str(&format!(" {}", x));
                }
            }
            s
        });
        let res = res.unwrap_or_else(|e| e);
        out.rec("knn", &format!("{}_{}", bname, fam_pts), &input, &res);
    }
}

fn rep_dup(rng: &mut Rng) -> bool {
    rng.chance(0.2)
}

fn sph(s: &Sphere) -> String {
    format!("{} {}", v3(s.center), fx(s.radius))
}

pub fn run_sphere(out: &mut Out, rng: &mut Rng, thorough: bool) {
    let reps = if thorough { 600 } else { 80 };
    for rep in 0..reps {
        let fam = ["uniform", "uniform", "shell", "lattice", "planar", "two", "single"][rng.below(7) as usize];
        let n = match fam {
            "two" => 2,
            "single" => 1,
            _ => 3 + rng.below(if rep % 4 == 0 { 40 } else { 8 }) as usize,
        };
        // absolute length scales from 1e-8 to 1e4: a solver must not depend on the unit of length
        let scale = [1.0, 1.0, 10.0, 0.01, 1e-4, 1e-6, 1e-8, 1e4][rng.below(8) as usize];
        // an offset makes the 4-point circumsphere formula (absolute coordinates) ill-conditioned when the set is small
        let off = if rng.chance(0.3) { DVec3::new(5., -3., 2.) * scale } else { DVec3::ZERO };
        let mut pts: Vec<DVec3> = vec![];
        for _ in 0..n {
            let r = DVec3::new(rng.f64() - 0.5, rng.f64() - 0.5, rng.f64() - 0.5);
            let p = match fam {
                "shell" => r.normalize() * 0.5,
                "lattice" => DVec3::new(rng.range(-2, 2) as f64, rng.range(-2, 2) as f64, rng.range(-2, 2) as f64) * 0.25,
                "planar" => DVec3::new(r.x, r.y, 0.125),
                _ => r,
            } * scale
                + off;
            if !pts.contains(&p) {
                pts.push(p);
            }
        }
        let mut input = format!("P {}", pts.len());
        for p in &pts {
            input.push_str(&format!(" {}", v3(*p)));
        }
        let p1 = pts.clone();
        let w = guarded(move || sph(&vh::welzl(&p1))).unwrap_or_else(|e| e);
        let p2 = pts.clone();
        let e6 = guarded(move || sph(&vh::epos6(&p2))).unwrap_or_else(|e| e);
        out.rec("sphere", &format!("points_{}", fam), &input, &format!("W {} E {}", w, e6));
        // spheres of spheres
        if pts.len() >= 2 && rep % 2 == 0 {
            let sps: Vec<Sphere> = pts.iter().map(|p| Sphere::new(*p, scale * (0.01 + 0.3 * rng.f64()))).collect();
            let mut input = format!("S {}", sps.len());
            for s in &sps {
                input.push_str(&format!(" {}", sph(s)));
            }
            let e = guarded(move || sph(&vh::epos6_spheres(&sps))).unwrap_or_else(|e| e);
            out.rec("sphere", &format!("spheres_{}", fam), &input, &format!("E {}", e));
        }
    }
}
