//! op `geom`: the public geometry helpers (src/geometry.rs) on random and structured arguments.
//! Every record carries the arguments and the implementation's result(s) as bit patterns,
//! including the results the defining equations need (second application for idempotence,
//! swapped arguments for antisymmetry).
use crate::proto::{fx, guarded, v3, Out};
use crate::rng::Rng;
use glam::DVec3;
use meshless_voronoi::geometry::{intersect_planes, signed_area_tri, signed_volume_tet, Plane, Sphere};

fn rv(rng: &mut Rng, scale: f64) -> DVec3 {
    DVec3::new(rng.f64() * 2. - 1., rng.f64() * 2. - 1., rng.f64() * 2. - 1.) * scale
}

fn scale(rng: &mut Rng) -> f64 {
    [1.0, 1.0, 1.0, 1e-3, 1e3, 0.125, 7.5, 1e-6, 1e-9, 1e6][rng.below(10) as usize]
}

/// a "structured" vector: small integers / dyadic fractions (exact arithmetic in the helpers)
fn sv(rng: &mut Rng) -> DVec3 {
    DVec3::new(rng.range(-4, 4) as f64 * 0.25, rng.range(-4, 4) as f64 * 0.25, rng.range(-4, 4) as f64 * 0.25)
}

fn vec(rng: &mut Rng, structured: bool, s: f64) -> DVec3 {
    if structured {
        sv(rng)
    } else {
        rv(rng, s)
    }
}

fn sphere_str(s: &Sphere) -> String {
    format!("{} {}", v3(s.center), fx(s.radius))
}

fn rec(out: &mut Out, kind: &str, fam: &str, input: String, f: impl FnOnce() -> String + std::panic::UnwindSafe) {
    let res = match guarded(f) {
        Ok(s) => s,
        Err(e) => e,
    };
    out.rec("geom", &format!("{}_{}", kind, fam), &format!("{} {}", kind, input), &res);
}

pub fn run(out: &mut Out, rng: &mut Rng, thorough: bool) {
    let reps = if thorough { 1500 } else { 150 };
    for rep in 0..reps {
        let structured = rep % 3 == 2;
        let fam = if structured { "grid" } else { "rand" };
        let s = scale(rng);
        // ---- intersect_planes
        {
            let (n0, n1, n2) = if rep % 7 == 0 {
                (DVec3::X, DVec3::Y, DVec3::Z)
            } else if rep % 7 == 1 {
                // nearly parallel pair (conditioning guard is applied by the comparator)
                let a = rv(rng, 1.0);
                (a, a + rv(rng, 1e-4), rv(rng, 1.0))
            } else {
                (vec(rng, structured, 1.0), vec(rng, structured, 1.0), vec(rng, structured, 1.0))
            };
            let (p0, p1, p2) = (vec(rng, structured, s), vec(rng, structured, s), vec(rng, structured, s));
            let det = glam::DMat3::from_cols(n0, n1, n2).determinant();
            if det != 0. {
                rec(out, "ip", fam, format!("{} {} {} {} {} {}", v3(n0), v3(p0), v3(n1), v3(p1), v3(n2), v3(p2)), move || {
                    v3(intersect_planes(&Plane::new(n0, p0), &Plane::new(n1, p1), &Plane::new(n2, p2)))
                });
            }
        }
        // ---- Plane::project_onto (+ second application)
        {
            let n = if rep % 5 == 0 { rv(rng, 1.0).normalize() } else { vec(rng, structured, 1.0) };
            let p = vec(rng, structured, s);
            let x = if rep % 11 == 3 { p } else { vec(rng, structured, s) };
            if n.length_squared() > 0. {
                rec(out, "po", fam, format!("{} {} {}", v3(n), v3(p), v3(x)), move || {
                    let pl = Plane::new(n, p);
                    let r = pl.project_onto(x);
                    let rr = pl.project_onto(r);
                    format!("{} {}", v3(r), v3(rr))
                });
            }
        }
        // ---- Plane::project_onto_intersection (+ second application)
        {
            let n0 = vec(rng, structured, 1.0);
            let n1 = vec(rng, structured, 1.0);
            let (p0, p1, x) = (vec(rng, structured, s), vec(rng, structured, s), vec(rng, structured, s));
            let c = n0.cross(n1);
            if glam::DMat3::from_cols(n0, n1, c).determinant() != 0. {
                rec(out, "poi", fam, format!("{} {} {} {} {}", v3(n0), v3(p0), v3(n1), v3(p1), v3(x)), move || {
                    let a = Plane::new(n0, p0);
                    let b = Plane::new(n1, p1);
                    let r = a.project_onto_intersection(&b, x);
                    // the second application may hit a singular system only if the first result is garbage
                    let rr = a.project_onto_intersection(&b, r);
                    format!("{} {}", v3(r), v3(rr))
                });
            }
        }
        // ---- project_onto_intersection on two planes that meet at a very shallow angle (2^-12 … 2^-26 rad), dyadic coordinates:
        //      every intermediate of the formula is exact, so the result is exact however ill-conditioned the system looks
        if rep % 3 == 1 {
            let m = 12 + rng.below(15) as i32;
            let e = (2f64).powi(-m);
            let (ia, ib) = [(0usize, 1usize), (1, 2), (2, 0), (0, 2)][rng.below(4) as usize];
            let mut a = [0.0; 3];
            a[ia] = 1.0;
            let mut b = a;
            b[ib] = if rng.bool() { e } else { -e };
            let (n0, n1) = if rng.bool() { (DVec3::from_array(a), DVec3::from_array(b)) } else { (DVec3::from_array(b), DVec3::from_array(a)) };
            let (p0, p1, x) = (sv(rng), sv(rng), sv(rng));
            rec(out, "poi", "shallow", format!("{} {} {} {} {}", v3(n0), v3(p0), v3(n1), v3(p1), v3(x)), move || {
                let pa = Plane::new(n0, p0);
                let pb = Plane::new(n1, p1);
                let r = pa.project_onto_intersection(&pb, x);
                let rr = pa.project_onto_intersection(&pb, r);
                format!("{} {}", v3(r), v3(rr))
            });
        }
        // ---- signed_volume_tet with the four transpositions
        {
            let v: Vec<DVec3> = (0..4).map(|_| vec(rng, structured, s)).collect();
            let vv = v.clone();
            rec(out, "tet", fam, format!("{} {} {} {}", v3(v[0]), v3(v[1]), v3(v[2]), v3(v[3])), move || {
                let v = vv;
                format!(
                    "{} {} {} {} {}",
                    fx(signed_volume_tet(v[0], v[1], v[2], v[3])),
                    fx(signed_volume_tet(v[1], v[0], v[2], v[3])),
                    fx(signed_volume_tet(v[0], v[2], v[1], v[3])),
                    fx(signed_volume_tet(v[2], v[1], v[0], v[3])),
                    fx(signed_volume_tet(v[0], v[1], v[3], v[2]))
                )
            });
        }
        // ---- signed_area_tri with swap and a second apex on the same / the other side
        {
            let v: Vec<DVec3> = (0..3).map(|_| vec(rng, structured, s)).collect();
            let n = (v[1] - v[0]).cross(v[2] - v[0]);
            let t = vec(rng, structured, s);
            // second apex: mirror of t through the plane (other side) and t pushed further away (same side)
            let side = (t - v[0]).dot(n);
            let t_same = t + n * (if side >= 0. { 1.0 } else { -1.0 }) * (0.5 + rng.f64());
            let t_other = if n.length_squared() > 0. { t - 2. * (t - v[0]).project_onto(n) } else { t };
            let vv = v.clone();
            rec(out, "tri", fam, format!("{} {} {} {} {} {}", v3(v[0]), v3(v[1]), v3(v[2]), v3(t), v3(t_same), v3(t_other)), move || {
                let v = vv;
                format!(
                    "{} {} {} {}",
                    fx(signed_area_tri(v[0], v[1], v[2], t)),
                    fx(signed_area_tri(v[1], v[0], v[2], t)),
                    fx(signed_area_tri(v[0], v[1], v[2], t_same)),
                    fx(signed_area_tri(v[0], v[1], v[2], t_other))
                )
            });
        }
        // ---- the same two helpers on small simplices far from the origin (size 1 at distance 1e3 … 1e6; the offsets are
        //      integers, the stored coordinates are what the oracle sees): the result must come from differences of vertices,
        //      products of absolute coordinates lose (distance / size)^2 ulps
        if rep % 5 == 3 {
            let l = [1e3, 1e4, 1e5, 1e6][rng.below(4) as usize];
            let o = DVec3::new((rng.range(-8, 8) as f64 + 0.5) * l, (rng.range(-8, 8) as f64 + 0.5) * l, (rng.range(-8, 8) as f64 + 0.5) * l);
            let v: Vec<DVec3> = (0..4).map(|_| o + rv(rng, 1.0)).collect();
            let vv = v.clone();
            rec(out, "tet", "far", format!("{} {} {} {}", v3(v[0]), v3(v[1]), v3(v[2]), v3(v[3])), move || {
                let v = vv;
                format!(
                    "{} {} {} {} {}",
                    fx(signed_volume_tet(v[0], v[1], v[2], v[3])),
                    fx(signed_volume_tet(v[1], v[0], v[2], v[3])),
                    fx(signed_volume_tet(v[0], v[2], v[1], v[3])),
                    fx(signed_volume_tet(v[2], v[1], v[0], v[3])),
                    fx(signed_volume_tet(v[0], v[1], v[3], v[2]))
                )
            });
            let n = (v[1] - v[0]).cross(v[2] - v[0]);
            let t = v[3];
            let side = (t - v[0]).dot(n);
            let t_same = t + n * (if side >= 0. { 1.0 } else { -1.0 }) * (0.5 + rng.f64());
            let t_other = if n.length_squared() > 0. { t - 2. * (t - v[0]).project_onto(n) } else { t };
            let vv = v.clone();
            rec(out, "tri", "far", format!("{} {} {} {} {} {}", v3(v[0]), v3(v[1]), v3(v[2]), v3(t), v3(t_same), v3(t_other)), move || {
                let v = vv;
                format!(
                    "{} {} {} {}",
                    fx(signed_area_tri(v[0], v[1], v[2], t)),
                    fx(signed_area_tri(v[1], v[0], v[2], t)),
                    fx(signed_area_tri(v[0], v[1], v[2], t_same)),
                    fx(signed_area_tri(v[0], v[1], v[2], t_other))
                )
            });
        }
        // ---- spheres through 2, 3, 4 points
        {
            let (a, b) = (vec(rng, structured, s), vec(rng, structured, s));
            rec(out, "s2", fam, format!("{} {}", v3(a), v3(b)), move || sphere_str(&Sphere::from_two_points(a, b)));
            let c = vec(rng, structured, s);
            if (a - c).cross(b - c).length_squared() > 0. {
                rec(out, "s3", fam, format!("{} {} {}", v3(a), v3(b), v3(c)), move || sphere_str(&Sphere::from_three_points(a, b, c)));
                let pts = [a, b, c];
                rec(out, "sb3", fam, format!("{} {} {}", v3(a), v3(b), v3(c)), move || sphere_str(&Sphere::from_boundary_points(&pts)));
            }
            let d = vec(rng, structured, s);
            if signed_volume_tet(a, b, c, d) != 0. {
                rec(out, "s4", fam, format!("{} {} {} {}", v3(a), v3(b), v3(c), v3(d)), move || sphere_str(&Sphere::from_four_points(a, b, c, d)));
            }
        }
        // ---- thin triangles with dyadic coordinates (every intermediate of the three-point formula is exact or nearly so):
        //      base L along one axis, height h = L * 2^-m, apex over 0, 1/4, 1/2, 1 or 5/4 of the base; all argument orders
        if rep % 3 == 0 {
            let l = [1.0, 4.0, 0.125, 1024.0, 1.0 / 1048576.0][rng.below(5) as usize];
            let m = 8 + rng.below(19) as i32;
            let h = l * (2f64).powi(-m);
            let t = [0.0, 0.25, 0.5, 1.0, 1.25][rng.below(5) as usize] * l;
            let (ax, ay) = [(0, 1), (1, 2), (2, 0), (1, 0)][rng.below(4) as usize];
            let mk = |u: f64, v: f64| {
                let mut q = [0.0; 3];
                q[ax] = u;
                q[ay] = v;
                DVec3::from_array(q)
            };
            let o = DVec3::new(rng.range(-2, 2) as f64, rng.range(-2, 2) as f64, rng.range(-2, 2) as f64) * l;
            let tri = [o + mk(0., 0.), o + mk(l, 0.), o + mk(t, h)];
            let perm = [[0, 1, 2], [0, 2, 1], [1, 0, 2], [1, 2, 0], [2, 0, 1], [2, 1, 0]][rng.below(6) as usize];
            let (a, b, c) = (tri[perm[0]], tri[perm[1]], tri[perm[2]]);
            rec(out, "s3", "sliver", format!("{} {} {}", v3(a), v3(b), v3(c)), move || sphere_str(&Sphere::from_three_points(a, b, c)));
            let pts = [a, b, c];
            rec(out, "sb3", "sliver", format!("{} {} {}", v3(a), v3(b), v3(c)), move || sphere_str(&Sphere::from_boundary_points(&pts)));
        }
        // ---- Sphere::extend / contains
        {
            let c = vec(rng, structured, s);
            let r = if rep % 9 == 4 {
                0.0 // a point sphere: extending it by a point gives the sphere with the two as diameter
            } else if structured {
                0.25 * (1 + rng.below(6)) as f64
            } else {
                s * (0.05 + rng.f64())
            };
            let x = match rep % 4 {
                0 => c + rv(rng, 1.0).normalize() * r * (1.5 + rng.f64()),          // outside
                1 => c + rv(rng, 1.0) * r * 0.5,                                    // inside
                2 => c + DVec3::new(r, 0., 0.),                                     // on the sphere
                _ => vec(rng, structured, s),
            };
            rec(out, "ext", fam, format!("{} {} {}", v3(c), fx(r), v3(x)), move || {
                let sph = Sphere::new(c, r);
                let inside = sph.contains(x);
                let e = sph.extend(x);
                format!("{} {}", inside as u8, sphere_str(&e))
            });
        }
    }
}
