//! op `nnvisit` (C17): the complete candidate sequence the builders visit for one generator, together
//! with a dump of the r-tree it was enumerated from.
use crate::gen;
use crate::proto::{fx, guarded, opt_v3, Out};
use crate::rng::Rng;
use meshless_voronoi::verif_hooks as vh;

pub fn run(out: &mut Out, rng: &mut Rng, thorough: bool) {
    let reps = if thorough { 12 } else { 2 };
    for rep in 0..reps {
        for fam in ["uniform", "lattice", "lattice_wall", "cluster", "on_boundary", "collinear", "cospherical_lattice", "single", "pair"] {
            for dim in [3usize, 2, 1] {
                for periodic in [false, true] {
                    if !thorough && dim < 3 && rng.chance(0.3) {
                        continue;
                    }
                    // small inputs are compared with the model's best-first search, large ones only against the specification
                    let big = rep % 2 == 1 && thorough || (!thorough && rng.chance(0.2));
                    let n = if big { 100 + rng.below(if thorough { 1500 } else { 300 }) as usize } else { 2 + rng.below(28) as usize };
                    let inp = gen::make(rng, fam, dim, periodic, n);
                    let dimn = inp.dimensionality();
                    let mut width = inp.width;
                    if inp.dim < 3 {
                        width.z = 1.;
                    }
                    if inp.dim < 2 {
                        width.y = 1.;
                    }
                    let nq = if big { 1 } else { 2 };
                    for _ in 0..nq {
                        let q = rng.below(inp.gens.len() as u64) as usize;
                        let gens = inp.gens.clone();
                        let res = guarded(move || {
                            let visit = vh::nn_visit(&gens, q, width, dimn, periodic, usize::MAX);
                            let mut s = format!("V {}", visit.len());
                            for (id, shift) in &visit {
                                s.push_str(&format!(" {} {}", id, opt_v3(*shift)));
                            }
                            s
                        });
                        let gens = inp.gens.clone();
                        let dump = guarded(move || {
                            let d = vh::rtree_dump(&gens, dimn);
                            let mut s = format!("T {}", d.len());
                            for nd in &d {
                                s.push_str(&format!(
                                    " {} {} {} {} {} {} {} {} {}",
                                    nd.depth,
                                    match nd.leaf {
                                        Some(i) => i.to_string(),
                                        None => "-".to_string(),
                                    },
                                    nd.n_children,
                                    fx(nd.lower[0]),
                                    fx(nd.lower[1]),
                                    fx(nd.lower[2]),
                                    fx(nd.upper[0]),
                                    fx(nd.upper[1]),
                                    fx(nd.upper[2])
                                ));
                            }
                            s
                        });
                        let res = match res {
                            Ok(s) => s,
                            Err(e) => e,
                        };
                        let dump = dump.unwrap_or_else(|e| e);
                        let fam2 = format!("{}_{}", inp.family, if big { "big" } else { "small" });
                        // width tokens in the input are the raw ones; the normalised width is what the search uses
                        out.rec("nnvisit", &fam2, &format!("{} Q {} {} {}", inp.tokens(), q, if big { "spec" } else { "model" }, dump), &res);
                    }
                }
            }
        }
    }
}
