//! op `insphere`: the exact predicate of the enabled backend on 5-tuples of grid points.
use crate::proto::Out;
use crate::rng::Rng;
use meshless_voronoi::verif_hooks as vh;

type P = [i64; 3];
const MAXC: i64 = (1i64 << 52) - 1;

fn emit(out: &mut Out, fam: &str, t: &[P; 5]) {
    let r = crate::proto::guarded(|| vh::in_sphere_exact(&t[0], &t[1], &t[2], &t[3], &t[4]));
    let mut s = String::new();
    for p in t {
        s.push_str(&format!("{} {} {} ", p[0], p[1], p[2]));
    }
    let res = match r {
        Ok(x) => format!("{}", x as i64),
        Err(e) => e,
    };
    out.rec("insphere", fam, s.trim_end(), &res);
}

fn rand_pt(rng: &mut Rng, bits: u32) -> P {
    let m = if bits >= 52 { MAXC as u64 + 1 } else { 1u64 << bits };
    [rng.below(m) as i64, rng.below(m) as i64, rng.below(m) as i64]
}

fn clampc(x: i64) -> i64 {
    x.max(0).min(MAXC)
}

/// points of the integer lattice on a common sphere around `c` (may go out of range -> clamped by caller check)
fn sphere_pts(rng: &mut Rng, c: P, x: i64, y: i64, z: i64) -> Vec<P> {
    let mut v = vec![];
    let perms = [[x, y, z], [y, z, x], [z, x, y], [x, z, y], [y, x, z], [z, y, x]];
    for p in perms {
        for sx in [-1, 1] {
            for sy in [-1, 1] {
                for sz in [-1, 1] {
                    v.push([c[0] + sx * p[0], c[1] + sy * p[1], c[2] + sz * p[2]]);
                }
            }
        }
    }
    v.sort();
    v.dedup();
    rng.shuffle(&mut v);
    v
}

pub fn run(out: &mut Out, rng: &mut Rng, thorough: bool) {
    // (i) exhaustive on the corners {0,1}^3 of a unit cube: 8^5 tuples
    let corners: Vec<P> = (0..8).map(|i| [(i & 1) as i64, ((i >> 1) & 1) as i64, ((i >> 2) & 1) as i64]).collect();
    let stride = if thorough { 1 } else { 7 };
    let mut n = 0usize;
    for a in &corners {
        for b in &corners {
            for c in &corners {
                for d in &corners {
                    for v in &corners {
                        n += 1;
                        if n % stride == 0 {
                            emit(out, "cube01", &[*a, *b, *c, *d, *v]);
                        }
                    }
                }
            }
        }
    }
    // random tuples on the {0,1,2}^3 grid
    let k = if thorough { 60000 } else { 4000 };
    for _ in 0..k {
        let t = [rand_pt(rng, 0).map(|_| 0), [0; 3], [0; 3], [0; 3], [0; 3]];
        let mut t = t;
        for p in t.iter_mut() {
            *p = [rng.below(3) as i64, rng.below(3) as i64, rng.below(3) as i64];
        }
        emit(out, "grid012", &t);
    }
    // (ii) random tuples of various bit widths up to the full 52 bit range
    let k = if thorough { 60000 } else { 5000 };
    for i in 0..k {
        let bits = [4, 8, 16, 26, 31, 32, 33, 40, 51, 52][i % 10];
        let t = [rand_pt(rng, bits), rand_pt(rng, bits), rand_pt(rng, bits), rand_pt(rng, bits), rand_pt(rng, bits)];
        emit(out, &format!("rand{}", bits), &t);
    }
    // high bits set: offsets close to 2^52 - 1
    for _ in 0..k / 5 {
        let mut t = [[0i64; 3]; 5];
        for p in t.iter_mut() {
            for c in p.iter_mut() {
                *c = if rng.bool() { MAXC - rng.below(1 << 20) as i64 } else { rng.below(1 << 20) as i64 };
            }
        }
        emit(out, "extremes", &t);
    }
    // (iii) co-spherical lattice points and their +-1 perturbations
    let k = if thorough { 12000 } else { 1500 };
    for i in 0..k {
        let scale_bits = [3u32, 10, 20, 30, 40, 50][i % 6];
        let m = 1i64 << scale_bits;
        let (x, y, z) = (rng.range(0, m - 1), rng.range(0, m - 1), rng.range(0, m - 1));
        let c = if scale_bits >= 50 { [1i64 << 51; 3] } else { [rng.range(m, MAXC - m), rng.range(m, MAXC - m), rng.range(m, MAXC - m)] };
        let pts = sphere_pts(rng, c, x, y, z);
        if pts.len() < 5 || pts.iter().any(|p| p.iter().any(|&q| q < 0 || q > MAXC)) {
            continue;
        }
        let base = [pts[0], pts[1], pts[2], pts[3], pts[4]];
        emit(out, "cospherical", &base);
        for _ in 0..3 {
            let mut t = base;
            let j = rng.below(5) as usize;
            let ax = rng.below(3) as usize;
            t[j][ax] = clampc(t[j][ax] + if rng.bool() { 1 } else { -1 });
            emit(out, "cospherical_pm1", &t);
        }
    }
    // (iv) a tight cluster of four lattice points on a huge sphere and a fifth point of the same sphere far away from them
    //      (a floating-point evaluation of the determinant is pure rounding noise here), exact and perturbed by one grid unit.
    //      Points (X, ±s, ±t), (X, ±t, ±s) around `c` all have the same distance from `c`; so have (-X, s, t), (s, X, t), ...
    let k = if thorough { 8000 } else { 1200 };
    for i in 0..k {
        let xb = [30u32, 36, 40, 44, 48, 50][i % 6];
        let sb = [1u32, 3, 6, 10, 14][(i / 6) % 5];
        let x = (1i64 << xb) + rng.range(0, 1 << (xb - 4));
        let s = rng.range(1, 1 << sb);
        let t = rng.range(0, 1 << sb);
        let c = [1i64 << 51; 3];
        let near_all: Vec<P> = vec![[x, s, t], [x, -s, t], [x, s, -t], [x, -s, -t], [x, t, s], [x, -t, s], [x, t, -s], [x, -t, -s]];
        let mut near = near_all.clone();
        near.sort();
        near.dedup();
        rng.shuffle(&mut near);
        if near.len() < 4 {
            continue;
        }
        let far_all: Vec<P> = vec![[-x, s, t], [s, x, t], [t, s, x], [-x, -t, s], [s, -x, -t], [-t, s, -x]];
        let far = far_all[rng.below(6) as usize];
        let mut tup: Vec<P> = near[..4].to_vec();
        tup.push(far);
        // the far point is the query point, or (less often) one of the four sphere points
        if rng.chance(0.3) {
            let j = rng.below(4) as usize;
            tup.swap(j, 4);
        }
        let tr = |p: &P| -> P { [c[0] + p[0], c[1] + p[1], c[2] + p[2]] };
        let base = [tr(&tup[0]), tr(&tup[1]), tr(&tup[2]), tr(&tup[3]), tr(&tup[4])];
        if base.iter().any(|p| p.iter().any(|&q| q < 0 || q > MAXC)) {
            continue;
        }
        emit(out, "cluster_far", &base);
        for _ in 0..2 {
            let mut t2 = base;
            let j = rng.below(5) as usize;
            let ax = rng.below(3) as usize;
            t2[j][ax] = clampc(t2[j][ax] + if rng.bool() { 1 } else { -1 });
            emit(out, "cluster_far_pm1", &t2);
        }
    }
    // the 8 corners of the full grid cube are co-spherical
    let big: Vec<P> = (0..8).map(|i| [(i & 1) as i64 * MAXC, ((i >> 1) & 1) as i64 * MAXC, ((i >> 2) & 1) as i64 * MAXC]).collect();
    for _ in 0..(if thorough { 2000 } else { 300 }) {
        let mut t = [[0i64; 3]; 5];
        for p in t.iter_mut() {
            *p = big[rng.below(8) as usize];
        }
        emit(out, "bigcube", &t);
        let j = rng.below(5) as usize;
        let ax = rng.below(3) as usize;
        t[j][ax] = clampc(t[j][ax] + if t[j][ax] == 0 { 1 } else { -1 });
        emit(out, "bigcube_pm1", &t);
    }
}
