//! op `withfaces` (C15): cells with stored face information through the public API.
use crate::gen::{self, Input};
use crate::proto::{fx, guarded, opt_usize, opt_v3, v3, Out};
use crate::rng::Rng;
use meshless_voronoi::integrals::{AreaCentroidIntegral, VolumeIntegral};
use meshless_voronoi::{ConvexCell, VoronoiIntegrator, WithFaces};

fn cell_tokens(c: &ConvexCell<WithFaces>) -> String {
    let mut s = format!("C {} {} NP {}", c.idx, v3(c.loc), c.clipping_planes.len());
    for h in &c.clipping_planes {
        s.push_str(&format!(" {} {} {} {}", v3(h.plane.n), v3(h.plane.p), opt_usize(h.right_idx), opt_v3(h.shift)));
    }
    s.push_str(&format!(" NV {}", c.vertices.len()));
    for v in &c.vertices {
        s.push_str(&format!(" {} {} {} {}", v3(v.loc), v.dual[0], v.dual[1], v.dual[2]));
    }
    s.push_str(&format!(" NFC {}", c.face_count()));
    for f in 0..c.face_count() {
        let pl = c.clipping_plane(f);
        // which clipping plane is it? (the accessor returns a reference into clipping_planes)
        let pidx = c.clipping_planes.iter().position(|h| std::ptr::eq(&h.plane, pl)).map(|i| i as i64).unwrap_or(-1);
        s.push_str(&format!(" {} {} {} {}", pidx, opt_usize(c.neighbour(f)), opt_v3(c.shift(f)), c.face_vertex_count(f)));
        for i in c.face_vertices(f) {
            s.push_str(&format!(" {}", i));
        }
    }
    let ai = c.compute_face_integrals::<(), AreaCentroidIntegral>(());
    s.push_str(&format!(" AI {}", ai.len()));
    for f in &ai {
        s.push_str(&format!(" {} {} {} {}", opt_usize(f.right()), opt_v3(f.shift()), fx(f.integral().area), v3(f.integral().centroid)));
    }
    s.push_str(&format!(" VOL {}", fx(c.compute_cell_integral::<(), VolumeIntegral>(()).volume)));
    s
}

fn one(inp: &Input, mask: &Option<Vec<bool>>) -> (String, String) {
    let vi = VoronoiIntegrator::build(&inp.gens, mask.as_deref(), inp.anchor, inp.width, inp.dimensionality(), inp.periodic);
    if inp.dim < 3 {
        // must be rejected; per cell (public ConvexCell::with_faces) and for the whole integrator
        let cell = vi.cells_iter().next().cloned();
        let r1 = match cell {
            Some(c) => guarded(std::panic::AssertUnwindSafe(move || c.with_faces().face_count())).is_err(),
            None => true,
        };
        let r2 = guarded(std::panic::AssertUnwindSafe(move || vi.with_faces().cells_iter().count())).is_err();
        return (String::new(), format!("LOWDIM {} {}", r1 as u8, r2 as u8));
    }
    let n_active = vi.cells_iter().count();
    // a panic while the faces are derived (or read) is this property's business, a panic of the construction is C05's
    let wf = match guarded(std::panic::AssertUnwindSafe(move || vi.with_faces())) {
        Ok(w) => w,
        Err(e) => return (String::new(), format!("WFPANIC {}", e)),
    };
    let mut s = format!("OK NC {}", n_active);
    let mut du = format!(" DU {}", n_active);
    // slots: after with_faces() the cell of generator i is still found at index i (None for generators that were not selected)
    let mut slots_bad = 0usize;
    for i in 0..inp.gens.len() {
        let want = mask.as_ref().map_or(true, |m| m[i]);
        match guarded(std::panic::AssertUnwindSafe(|| wf.get_cell_at(i).map(|c| c.idx))) {
            Ok(Some(idx)) => {
                if !want || idx != i {
                    slots_bad += 1;
                }
            }
            Ok(None) => {
                if want {
                    slots_bad += 1;
                }
            }
            Err(_) => slots_bad += 1,
        }
    }
    for c in wf.cells_iter() {
        if let Err(e) = guarded(std::panic::AssertUnwindSafe(|| cell_tokens(c))) {
            return (String::new(), format!("WFPANIC {}", e));
        }
        du.push_str(&format!(" {} {}", c.clipping_planes.len(), c.vertices.len()));
        for v in &c.vertices {
            du.push_str(&format!(" {} {} {}", v.dual[0], v.dual[1], v.dual[2]));
        }
        let a = cell_tokens(c);
        // discarding and re-deriving the faces must be the identity
        let c2 = c.clone().discard_faces();
        let same_core = c2.vertices.len() == c.vertices.len()
            && c2.clipping_planes.len() == c.clipping_planes.len()
            && c2.vertices.iter().zip(c.vertices.iter()).all(|(x, y)| x.dual == y.dual && x.loc == y.loc);
        let b = cell_tokens(&c2.with_faces());
        s.push_str(&format!(" {} RT {} {}", a, same_core as u8, (a == b) as u8));
    }
    s.push_str(&format!(" SLOTS {}", slots_bad));
    (du, s)
}

pub fn run(out: &mut Out, rng: &mut Rng, thorough: bool) {
    let reps = if thorough { 10 } else { 2 };
    for rep in 0..reps {
        for fam in ["uniform", "lattice", "lattice_wall", "on_boundary", "coplanar", "cospherical_lattice", "pair", "single", "cluster"] {
            for (dim, periodic) in [(3usize, false), (3, true), (2, false), (1, true)] {
                if dim < 3 && rep > 0 && rng.chance(0.7) {
                    continue;
                }
                let n = 1 + rng.below(if thorough { 24 } else { 10 }) as usize;
                let inp = gen::make(rng, fam, dim, periodic, n);
                let mask = if rng.chance(0.25) { Some(gen::make_mask(rng, inp.gens.len())) } else { None };
                let (i2, m2) = (inp.clone(), mask.clone());
                let (du, res) = guarded(move || one(&i2, &m2)).unwrap_or_else(|e| (String::new(), e));
                out.rec("withfaces", &inp.family, &format!("{} {}{}", inp.tokens(), super::tess::mask_tokens(&mask), du), &res);
            }
        }
    }
}

// ------------------------------------------------------------------------------------------------
// op `bigcell` (C15): ONE cell with more than ten thousand faces (a generator in the middle of a dense spherical shell).
// Index widths, cumulative offsets and per-face storage are exercised far beyond what any other input reaches.  The cell is
// too large for the exact oracle, so the invariants of the property are evaluated here, on the implementation's own output,
// and the record carries their outcome (integers and a few floats).
// ------------------------------------------------------------------------------------------------
fn bigcell_one(nshell: usize, ring: bool, rng: &mut Rng) -> String {
    use glam::DVec3;
    let c = DVec3::splat(0.5);
    let mut gens = vec![c];
    if ring {
        // ONE FACE with `nshell` vertices: two generators on the axis of a ring of `nshell` generators; the face between the
        // two is an `nshell`-gon (vertex counts per face beyond 255 / 65535 …)
        gens[0] = c - DVec3::new(0., 0., 0.05);
        gens.push(c + DVec3::new(0., 0., 0.05));
        let phase = rng.f64();
        // a ring generator contributes an edge only if its radial jitter stays below (angular spacing)^2 / 2
        let delta = std::f64::consts::TAU / nshell as f64;
        let jitter = (0.4 * delta * delta).min(1e-4);
        for i in 0..nshell {
            let a = (i as f64 + phase) / nshell as f64 * std::f64::consts::TAU;
            gens.push(c + DVec3::new(a.cos(), a.sin(), 0.) * 0.3 * (1.0 + jitter * (rng.f64() - 0.5)));
        }
    } else {
        // Fibonacci lattice on the sphere + jitter: evenly spread, every shell generator is a neighbour of the centre
        let golden = std::f64::consts::PI * (3.0 - 5f64.sqrt());
        for i in 0..nshell {
            let z = 1.0 - 2.0 * (i as f64 + 0.5) / nshell as f64;
            let r = (1.0 - z * z).sqrt();
            let a = golden * i as f64;
            let d = DVec3::new(r * a.cos(), r * a.sin(), z);
            gens.push(c + d * 0.3 * (1.0 + 1e-4 * (rng.f64() - 0.5)));
        }
    }
    let mut mask = vec![false; gens.len()];
    mask[0] = true;
    let vi = VoronoiIntegrator::build(&gens, Some(&mask), DVec3::ZERO, DVec3::ONE, meshless_voronoi::Dimensionality::ThreeD, false);
    let wf = vi.with_faces();
    let cell = wf.cells_iter().next().expect("central cell");
    let np = cell.clipping_planes.len();
    let nv = cell.vertices.len();
    let nf = cell.face_count();
    let mut per_vertex = vec![0usize; nv];
    let (mut onplane_bad, mut cycle_bad, mut range_bad, mut acc_bad, mut halfedges) = (0usize, 0usize, 0usize, 0usize, 0usize);
    let mut planes_seen = std::collections::HashSet::new();
    let ai = cell.compute_face_integrals::<(), AreaCentroidIntegral>(());
    let mut area_dev: f64 = 0.;
    let mut area_sum = 0.;
    let mut max_fv = 0usize;
    for f in 0..nf {
        let pl = cell.clipping_plane(f);
        let pidx = cell.clipping_planes.iter().position(|h| std::ptr::eq(&h.plane, pl));
        let pidx = match pidx {
            Some(p) => p,
            None => {
                acc_bad += 1;
                continue;
            }
        };
        if !planes_seen.insert(pidx) {
            acc_bad += 1;
        }
        if cell.neighbour(f) != cell.clipping_planes[pidx].right_idx || cell.shift(f) != cell.clipping_planes[pidx].shift {
            acc_bad += 1;
        }
        let vs: Vec<usize> = cell.face_vertices(f).to_vec();
        if vs.len() != cell.face_vertex_count(f) {
            acc_bad += 1;
        }
        halfedges += vs.len();
        max_fv = max_fv.max(vs.len());
        let mut poly = DVec3::ZERO;
        for (k, &v) in vs.iter().enumerate() {
            if v >= nv {
                range_bad += 1;
                continue;
            }
            per_vertex[v] += 1;
            if !cell.vertices[v].dual.contains(&pidx) {
                onplane_bad += 1;
            }
            let w = vs[(k + 1) % vs.len()];
            if w < nv {
                // consecutive vertices of a face share a second plane
                let shared = cell.vertices[v].dual.iter().filter(|p| **p != pidx && cell.vertices[w].dual.contains(p)).count();
                if shared != 1 {
                    cycle_bad += 1;
                }
                poly += (cell.vertices[v].loc - cell.loc).cross(cell.vertices[w].loc - cell.loc);
            }
        }
        // polygon area (vector area projected on the plane normal; counter-clockwise about the inward normal = positive)
        let a_poly = 0.5 * poly.dot(pl.n);
        // the face integral with the same plane: integrals come in face order
        if f < ai.len() {
            let a_int = ai[f].integral().area;
            area_dev = area_dev.max((a_poly - a_int).abs());
            area_sum += a_int;
        }
    }
    let inc_bad = per_vertex.iter().filter(|&&k| k != 3).count();
    let euler = nv as i64 - (halfedges / 2) as i64 + nf as i64;
    format!(
        "BIG np {} nv {} nf {} ai {} euler {} incidence_bad {} onplane_bad {} cycle_bad {} range_bad {} accessor_bad {} area_dev {} area_sum {} maxfv {}",
        np, nv, nf, ai.len(), euler, inc_bad, onplane_bad, cycle_bad, range_bad, acc_bad, fx(area_dev), fx(area_sum), max_fv
    )
}

pub fn run_bigcell(out: &mut Out, rng: &mut Rng, thorough: bool) {
    for &n in if thorough { &[700usize, 12000, 23000][..] } else { &[700usize, 11500][..] } {
        let mut r2 = rng.fork(n as u64);
        let res = guarded(std::panic::AssertUnwindSafe(move || bigcell_one(n, false, &mut r2))).unwrap_or_else(|e| format!("WFPANIC {}", e));
        out.rec("bigcell", "shell3r_unit_z", &format!("{}", n), &res);
    }
    // one face with hundreds of vertices (thorough: more than 65536 is out of reach of the ring construction in f64, 1000 … 5000)
    for &n in if thorough { &[255usize, 256, 257, 1000, 5000][..] } else { &[256usize, 300][..] } {
        let mut r2 = rng.fork(7 * n as u64);
        let res = guarded(std::panic::AssertUnwindSafe(move || bigcell_one(n, true, &mut r2))).unwrap_or_else(|e| format!("WFPANIC {}", e));
        out.rec("bigcell", "ring3r_unit_z", &format!("{}", n), &res);
    }
}
