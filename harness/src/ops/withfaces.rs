//! op `withfaces` (C15): cells with stored face information through the public API.
use crate::gen::{self, Input};
use crate::proto::{fx, guarded, opt_usize, opt_v3, v3, Out};
use crate::rng::Rng;
use meshless_voronoi::integrals::{AreaCentroidIntegral, VolumeIntegral};
use meshless_voronoi::{ConvexCell, VoronoiIntegrator, WithFaces};

fn cell_tokens(c: &ConvexCell<WithFaces>) -> String {
    let mut s = format!("C {} {} NP {}", c.idx, v3(c.loc), c.clipping_planes.len());
    for h in &c.clipping_planes {
        s.push_str(&format!(" {} {} {} {}", v3(h.plane.n), v3(h.plane.p), opt_usize(h.right_idx), opt_v3(h.shift)));
    }
    s.push_str(&format!(" NV {}", c.vertices.len()));
    for v in &c.vertices {
        s.push_str(&format!(" {} {} {} {}", v3(v.loc), v.dual[0], v.dual[1], v.dual[2]));
    }
    s.push_str(&format!(" NFC {}", c.face_count()));
    for f in 0..c.face_count() {
        let pl = c.clipping_plane(f);
        // which clipping plane is it? (the accessor returns a reference into clipping_planes)
        let pidx = c.clipping_planes.iter().position(|h| std::ptr::eq(&h.plane, pl)).map(|i| i as i64).unwrap_or(-1);
        s.push_str(&format!(" {} {} {} {}", pidx, opt_usize(c.neighbour(f)), opt_v3(c.shift(f)), c.face_vertex_count(f)));
        for i in c.face_vertices(f) {
            s.push_str(&format!(" {}", i));
        }
    }
    let ai = c.compute_face_integrals::<(), AreaCentroidIntegral>(());
    s.push_str(&format!(" AI {}", ai.len()));
    for f in &ai {
        s.push_str(&format!(" {} {} {} {}", opt_usize(f.right()), opt_v3(f.shift()), fx(f.integral().area), v3(f.integral().centroid)));
    }
    s.push_str(&format!(" VOL {}", fx(c.compute_cell_integral::<(), VolumeIntegral>(()).volume)));
    s
}

fn one(inp: &Input, mask: &Option<Vec<bool>>) -> (String, String) {
    let vi = VoronoiIntegrator::build(&inp.gens, mask.as_deref(), inp.anchor, inp.width, inp.dimensionality(), inp.periodic);
    if inp.dim < 3 {
        // must be rejected; per cell (public ConvexCell::with_faces) and for the whole integrator
        let cell = vi.cells_iter().next().cloned();
        let r1 = match cell {
            Some(c) => guarded(std::panic::AssertUnwindSafe(move || c.with_faces().face_count())).is_err(),
            None => true,
        };
        let r2 = guarded(std::panic::AssertUnwindSafe(move || vi.with_faces().cells_iter().count())).is_err();
        return (String::new(), format!("LOWDIM {} {}", r1 as u8, r2 as u8));
    }
    let n_active = vi.cells_iter().count();
    // a panic while the faces are derived (or read) is this property's business, a panic of the construction is C05's
    let wf = match guarded(std::panic::AssertUnwindSafe(move || vi.with_faces())) {
        Ok(w) => w,
        Err(e) => return (String::new(), format!("WFPANIC {}", e)),
    };
    let mut s = format!("OK NC {}", n_active);
    let mut du = format!(" DU {}", n_active);
    for c in wf.cells_iter() {
        if let Err(e) = guarded(std::panic::AssertUnwindSafe(|| cell_tokens(c))) {
            return (String::new(), format!("WFPANIC {}", e));
        }
        du.push_str(&format!(" {} {}", c.clipping_planes.len(), c.vertices.len()));
        for v in &c.vertices {
            du.push_str(&format!(" {} {} {}", v.dual[0], v.dual[1], v.dual[2]));
        }
        let a = cell_tokens(c);
        // discarding and re-deriving the faces must be the identity
        let c2 = c.clone().discard_faces();
        let same_core = c2.vertices.len() == c.vertices.len()
            && c2.clipping_planes.len() == c.clipping_planes.len()
            && c2.vertices.iter().zip(c.vertices.iter()).all(|(x, y)| x.dual == y.dual && x.loc == y.loc);
        let b = cell_tokens(&c2.with_faces());
        s.push_str(&format!(" {} RT {} {}", a, same_core as u8, (a == b) as u8));
    }
    (du, s)
}

pub fn run(out: &mut Out, rng: &mut Rng, thorough: bool) {
    let reps = if thorough { 10 } else { 2 };
    for rep in 0..reps {
        for fam in ["uniform", "lattice", "lattice_wall", "on_boundary", "coplanar", "cospherical_lattice", "pair", "single", "cluster"] {
            for (dim, periodic) in [(3usize, false), (3, true), (2, false), (1, true)] {
                if dim < 3 && rep > 0 && rng.chance(0.7) {
                    continue;
                }
                let n = 1 + rng.below(if thorough { 24 } else { 10 }) as usize;
                let inp = gen::make(rng, fam, dim, periodic, n);
                let mask = if rng.chance(0.25) { Some(gen::make_mask(rng, inp.gens.len())) } else { None };
                let (i2, m2) = (inp.clone(), mask.clone());
                let (du, res) = guarded(move || one(&i2, &m2)).unwrap_or_else(|e| (String::new(), e));
                out.rec("withfaces", &inp.family, &format!("{} {}{}", inp.tokens(), super::tess::mask_tokens(&mask), du), &res);
            }
        }
    }
}
