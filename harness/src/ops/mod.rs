pub mod cells;
pub mod insphere;
pub mod routes;
pub mod tess;
