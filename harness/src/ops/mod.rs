pub mod cells;
pub mod insphere;
pub mod tess;
