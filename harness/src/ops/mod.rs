pub mod insphere;
