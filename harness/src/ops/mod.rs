pub mod addfar;
pub mod cells;
pub mod clipperm;
pub mod geom;
pub mod iloc;
pub mod insphere;
pub mod routes;
pub mod tess;
