//! ops `routes` (C12, C13) and `partial` (C07): construction routes, bookkeeping, masks.
use crate::gen::{self, Input};
use crate::proto::{fx, guarded, opt_usize, v3, Out};
use crate::rng::Rng;
use meshless_voronoi::integrals::{AreaCentroidIntegral, AreaIntegral, VolumeCentroidIntegral, VolumeIntegral};
use meshless_voronoi::{Voronoi, VoronoiIntegrator};

/// plane facts the bookkeeping model needs, per constructed cell:
/// `C idx np {right shifted valid hastet}`
fn plane_info(inp: &Input, vi: &VoronoiIntegrator<meshless_voronoi::verif_hooks::WithoutFaces>) -> String {
    let dim = inp.dimensionality();
    let mut s = String::new();
    let mut n = 0;
    for cell in vi.cells_iter() {
        n += 1;
        s.push_str(&format!(" C {} {}", cell.idx, cell.clipping_planes.len()));
        let mut has = vec![false; cell.clipping_planes.len()];
        for v in &cell.vertices {
            for d in v.dual {
                has[d] = true;
            }
        }
        for (k, h) in cell.clipping_planes.iter().enumerate() {
            s.push_str(&format!(
                " {} {} {} {}",
                opt_usize(h.right_idx),
                h.shift.is_some() as u8,
                dim.vector_is_valid(h.normal()) as u8,
                has[k] as u8
            ));
        }
    }
    format!("PI {}{}", n, s)
}

/// `get_cell_at(i)` for every generator: `0` absent, `1` present with `idx == i`, `2` present with another `idx`
pub fn gca<M: meshless_voronoi::ConvexCellMarker + 'static>(vi: &VoronoiIntegrator<M>, n: usize) -> String {
    (0..n)
        .map(|i| match vi.get_cell_at(i) {
            None => '0',
            Some(c) if c.idx == i => '1',
            Some(_) => '2',
        })
        .collect()
}

pub fn run_routes(out: &mut Out, rng: &mut Rng, thorough: bool) {
    let reps = if thorough { 6 } else { 1 };
    let fams = ["uniform", "lattice", "on_boundary", "coplanar", "pair", "single", "collinear"];
    for _ in 0..reps {
        for fam in fams {
            for dim in [3usize, 2, 1] {
                for periodic in [false, true] {
                    let n = 2 + rng.below(if thorough { 40 } else { 14 }) as usize;
                    let mut inp = gen::make(rng, fam, dim, periodic, n);
                    if fam == "uniform" {
                        // arbitrary low mantissa bits: positions made as `anchor + t * width` lie on the coarse float grid of the
                        // anchor, so `anchor + (p - anchor)` gives `p` back exactly - a generic f64 position does not (a route
                        // that re-derives positions relative to the box must not move them).  Own generator: the main stream
                        // of random numbers is not disturbed.
                        let mut r2 = Rng::new(inp.gens[0].x.to_bits() ^ (n as u64).wrapping_mul(0x9E3779B97F4A7C15));
                        for g in inp.gens.iter_mut() {
                            for a in 0..dim {
                                g[a] = f64::from_bits(g[a].to_bits() ^ r2.below(16));
                            }
                        }
                        inp.family = inp.family.replacen("uniform", "uniformbits", 1);
                    }
                    let nmask = if thorough { 4 } else { 2 };
                    for mi in 0..nmask {
                        let mask = if mi == 0 { None } else { Some(gen::make_mask(rng, inp.gens.len())) };
                        emit_routes(out, &inp, &mask);
                    }
                }
            }
        }
    }
    // body-centred and face-centred cubic lattices (2 x 2 x 2 and 3 x 3 x 3 conventional cells, periodic or not): their cells keep
    // bisectors that only graze the cell - stored faces of area exactly 0 (or a rounding-level negative area); whatever a route
    // does with such faces, every route has to do the same
    for (name, basis) in [("bcc", vec![[0.0, 0.0, 0.0], [0.5, 0.5, 0.5]]), ("fcc", vec![[0.0, 0.0, 0.0], [0.5, 0.5, 0.0], [0.5, 0.0, 0.5], [0.0, 0.5, 0.5]])] {
        for m in [2usize, 3] {
            for periodic in [false, true] {
                use glam::DVec3;
                let mut gens = vec![];
                for i in 0..m {
                    for j in 0..m {
                        for k in 0..m {
                            for b in &basis {
                                gens.push((DVec3::new(i as f64, j as f64, k as f64) + DVec3::new(b[0], b[1], b[2]) + DVec3::splat(0.25)) / m as f64);
                            }
                        }
                    }
                }
                let inp = Input { family: format!("{}{}3{}_unit_z", name, m, if periodic { "p" } else { "r" }), dim: 3, periodic, anchor: DVec3::ZERO, width: DVec3::ONE, gens };
                for mi in 0..2 {
                    let mask = if mi == 0 { None } else { Some(gen::make_mask(rng, inp.gens.len())) };
                    emit_routes(out, &inp, &mask);
                }
            }
        }
    }
    run_routes_large(out, rng, thorough);
}

/// large masked inputs for `routes`: parallel loops that work block-wise (rayon splits above a few dozen cells) must keep
/// global generator indices, also for cells that are not constructed
fn run_routes_large(out: &mut Out, rng: &mut Rng, thorough: bool) {
    let big = if thorough { 8 } else { 2 };
    for b in 0..big {
        let dim = if b % 2 == 0 { 3 } else { 2 };
        let n = 130 + rng.below(if thorough { 400 } else { 120 }) as usize;
        let inp = gen::make(rng, "uniform", dim, b % 4 >= 2, n);
        let mask = Some(gen::make_mask(rng, inp.gens.len()));
        emit_routes(out, &inp, &mask);
    }
}

fn emit_routes(out: &mut Out, inp: &Input, mask: &Option<Vec<bool>>) {
    let inp2 = inp.clone();
    let mask2 = mask.clone();
    let res = guarded(move || {
        let inp = inp2;
        let mask = mask2;
        let vi = VoronoiIntegrator::build(&inp.gens, mask.as_deref(), inp.anchor, inp.width, inp.dimensionality(), inp.periodic);
        let mut s = plane_info(&inp, &vi);
        let direct = match &mask {
            None => Voronoi::build(&inp.gens, inp.anchor, inp.width, inp.dimensionality(), inp.periodic),
            Some(m) => Voronoi::build_partial(&inp.gens, m, inp.anchor, inp.width, inp.dimensionality(), inp.periodic),
        };
        let via = Voronoi::from(&vi);
        s.push_str(&format!(" DIRECT {}", crate::ser::voronoi(&direct)));
        s.push_str(&format!(" VIA {}", crate::ser::voronoi(&via)));
        // built-in integrals through the integrator
        let ci = vi.compute_cell_integrals::<VolumeCentroidIntegral>();
        s.push_str(&format!(" CI {}", ci.len()));
        for c in &ci {
            s.push_str(&format!(" {} {}", fx(c.volume), v3(c.centroid)));
        }
        let fs = vi.compute_face_integrals_sym::<AreaCentroidIntegral>();
        s.push_str(&format!(" FS {}", fs.len()));
        for f in &fs {
            s.push_str(&format!(" {} {} {}", crate::ser::face_header(f), fx(f.integral().area), v3(f.integral().centroid)));
        }
        let fnn = vi.compute_face_integrals::<AreaCentroidIntegral>();
        s.push_str(&format!(" FN {}", fnn.len()));
        for f in &fnn {
            s.push_str(&format!(" {} {} {}", crate::ser::face_header(f), fx(f.integral().area), v3(f.integral().centroid)));
        }
        // the plain integrals accumulate the same sums as the centroid variants
        let vo = vi.compute_cell_integrals::<VolumeIntegral>();
        s.push_str(&format!(" VO {}", vo.len()));
        for c in &vo {
            s.push_str(&format!(" {}", fx(c.volume)));
        }
        let ao = vi.compute_face_integrals::<AreaIntegral>();
        s.push_str(&format!(" AO {}", ao.len()));
        for f in &ao {
            s.push_str(&format!(" {}", fx(f.integral().area)));
        }
        // get_cell_at: present exactly for constructed cells, and it is the cell of that generator
        s.push_str(" GC ");
        s.push_str(&gca(&vi, inp.gens.len()));
        // with stored faces (3D only): a different decomposition, compared up to rounding
        if inp.dim == 3 {
            let vif = vi.clone().with_faces();
            let viaf = Voronoi::from(&vif);
            s.push_str(&format!(" VIAF {}", crate::ser::voronoi(&viaf)));
        } else {
            s.push_str(" VIAF -");
        }
        // every cell once more through with_faces -> discard_faces -> with_faces (3D): the volume integral of the re-derived cell
        if inp.dim == 3 {
            let wf = vi.clone().with_faces();
            let mut t = String::new();
            let mut n = 0;
            for c in wf.cells_iter() {
                let c2 = c.clone().discard_faces().with_faces();
                t.push_str(&format!(" {} {}", fx(c2.compute_cell_integral::<(), VolumeIntegral>(()).volume), c2.face_count() as i64 - c.face_count() as i64));
                n += 1;
            }
            s.push_str(&format!(" VRT {}{}", n, t));
        }
        // `build_voronoi_cells` twice into the SAME caller-kept buffers: the second call must append the same faces again and
        // leave the faces already stored untouched (bitwise), and return the same cells
        {
            let tok = |f: &meshless_voronoi::VoronoiFace| {
                format!("{}:{}:{}:{}:{}:{}", f.left(), opt_usize(f.right()), crate::proto::opt_v3(f.shift()).replace(' ', ","), fx(f.area()), v3(f.centroid()).replace(' ', ","), v3(f.normal()).replace(' ', ","))
            };
            let celltok = |c: &meshless_voronoi::VoronoiCell| format!("{}:{}:{}", fx(c.volume()), v3(c.centroid()).replace(' ', ","), fx(c.safety_radius()));
            let mut bufs: Vec<Vec<meshless_voronoi::VoronoiFace>> = vec![vec![]; inp.gens.len()];
            let c1: Vec<String> = vi.build_voronoi_cells(&mut bufs).iter().map(celltok).collect();
            let first: Vec<Vec<String>> = bufs.iter().map(|b| b.iter().map(tok).collect()).collect();
            let c2: Vec<String> = vi.build_voronoi_cells(&mut bufs).iter().map(celltok).collect();
            let mut bad = String::from("-");
            if c1 != c2 {
                bad = "cells-differ".to_string();
            }
            for (i, b) in bufs.iter().enumerate() {
                let second: Vec<String> = b.iter().map(tok).collect();
                let mut expect = first[i].clone();
                expect.extend(first[i].iter().cloned());
                if second != expect && bad == "-" {
                    let k = (0..second.len().min(expect.len())).find(|&k| second[k] != expect[k]).unwrap_or(second.len().min(expect.len()));
                    bad = format!("cell{}:entry{}:{}:expected:{}", i, k, second.get(k).cloned().unwrap_or_default(), expect.get(k).cloned().unwrap_or_default());
                }
            }
            s.push_str(&format!(" BVC {}", bad));
        }
        s
    });
    let res = match res {
        Ok(s) => s,
        Err(e) => e,
    };
    // the plane facts are the (abstract) geometry the bookkeeping model is parametric in: they go to the input side
    let (pi, rest) = match res.find(" DIRECT ") {
        Some(k) => (res[..k].to_string(), res[k + 1..].to_string()),
        None => ("PI 0".to_string(), res.clone()),
    };
    out.rec("routes", &inp.family, &format!("{} {} {}", inp.tokens(), super::tess::mask_tokens(mask), pi), &rest);
}

pub fn run_partial(out: &mut Out, rng: &mut Rng, thorough: bool) {
    let reps = if thorough { 5 } else { 1 };
    let fams = ["uniform", "lattice", "on_boundary", "coplanar", "pair", "collinear", "blob_isolated", "void_shell"];
    for rep in 0..reps {
        for fam in fams {
            for dim in [3usize, 2, 1] {
                for periodic in [false, true] {
                    // small inputs: all masks exhaustively; larger: random masks
                    let small = rng.bool();
                    let big = fam == "blob_isolated" || fam == "void_shell";
                    if big && !thorough && (periodic && dim == 1) {
                        continue;
                    }
                    let n = if fam == "blob_isolated" {
                        // beyond every plausible size threshold (1024) in at least one record per dimensionality
                        if periodic { 300 + rng.below(200) as usize } else { 1040 + rng.below(300) as usize }
                    } else if fam == "void_shell" {
                        if dim == 3 { 150 + rng.below(200) as usize } else { 40 + rng.below(100) as usize }
                    } else if small {
                        1 + rng.below(if thorough { 6 } else { 4 }) as usize
                    } else {
                        6 + rng.below(if thorough { 200 } else { 30 }) as usize
                    };
                    let _ = rep;
                    let inp = gen::make(rng, fam, dim, periodic, n);
                    let n = inp.gens.len();
                    let masks: Vec<Vec<bool>> = if n <= 6 {
                        (0..(1u32 << n)).map(|b| (0..n).map(|i| (b >> i) & 1 == 1).collect()).collect()
                    } else if fam == "blob_isolated" {
                        (0..2).map(|_| gen::make_mask_local(rng, n)).collect()
                    } else if fam == "void_shell" {
                        // the central generator (index 0) selected with few others / alone / unselected
                        let mut a = vec![false; n];
                        a[0] = true;
                        let mut b: Vec<bool> = (0..n).map(|_| rng.chance(0.1)).collect();
                        b[0] = true;
                        let mut c: Vec<bool> = (0..n).map(|_| rng.bool()).collect();
                        c[0] = false;
                        vec![a, b, c]
                    } else {
                        (0..(if thorough { 6 } else { 3 })).map(|_| gen::make_mask(rng, n)).collect()
                    };
                    let inp2 = inp.clone();
                    let res = guarded(move || {
                        let inp = inp2;
                        let full = Voronoi::build(&inp.gens, inp.anchor, inp.width, inp.dimensionality(), inp.periodic);
                        let mut s = format!("FULL {}", crate::ser::voronoi(&full));
                        s.push_str(&format!(" NM {}", masks.len()));
                        for m in &masks {
                            let p = Voronoi::build_partial(&inp.gens, m, inp.anchor, inp.width, inp.dimensionality(), inp.periodic);
                            s.push_str(&format!(" MASK {} {}", m.iter().map(|&b| if b { '1' } else { '0' }).collect::<String>(), crate::ser::voronoi(&p)));
                            let vi = VoronoiIntegrator::build(&inp.gens, Some(m), inp.anchor, inp.width, inp.dimensionality(), inp.periodic);
                            s.push_str(&format!(" GCA {}", gca(&vi, inp.gens.len())));
                            // the same mask through the integrator with stored faces (3D): a further route to a partial tessellation
                            if inp.dim == 3 {
                                let pwf = Voronoi::from(&vi.with_faces());
                                s.push_str(&format!(" PWF {}", crate::ser::voronoi(&pwf)));
                            }
                        }
                        s
                    });
                    let res = match res {
                        Ok(s) => s,
                        Err(e) => e,
                    };
                    out.rec("partial", &inp.family, &inp.tokens(), &res);
                }
            }
        }
    }
}
