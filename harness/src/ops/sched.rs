//! op `sched` (C09): the same input built under many schedules.  One record per input: the full
//! serialisation of everything the property names (cells, faces in order, connectivity, integral vectors)
//! for the first configuration and an FNV fingerprint of the same serialisation for every other
//! configuration (thread counts, repeated runs, jitter seeds).  The sequential (non-rayon) harness build
//! emits the same records with a single configuration.
use crate::gen::{self, Input};
use crate::proto::{fx, guarded, v3, Out};
use crate::rng::Rng;
use meshless_voronoi::integrals::{AreaCentroidIntegral, VolumeCentroidIntegral};
use meshless_voronoi::{Voronoi, VoronoiIntegrator};

fn everything(inp: &Input, mask: &Option<Vec<bool>>) -> String {
    let direct = match mask {
        None => Voronoi::build(&inp.gens, inp.anchor, inp.width, inp.dimensionality(), inp.periodic),
        Some(m) => Voronoi::build_partial(&inp.gens, m, inp.anchor, inp.width, inp.dimensionality(), inp.periodic),
    };
    let mut s = crate::ser::voronoi(&direct);
    let vi = VoronoiIntegrator::build(&inp.gens, mask.as_deref(), inp.anchor, inp.width, inp.dimensionality(), inp.periodic);
    let ci = vi.compute_cell_integrals::<VolumeCentroidIntegral>();
    s.push_str(&format!(" CI {}", ci.len()));
    for c in &ci {
        s.push_str(&format!(" {} {}", fx(c.volume), v3(c.centroid)));
    }
    let data = vec![(); inp.gens.len()];
    let cd = vi.compute_cell_integrals_with_data::<(), VolumeCentroidIntegral>(&data);
    s.push_str(&format!(" CD {}", cd.len()));
    for c in &cd {
        s.push_str(&format!(" {}", fx(c.volume)));
    }
    let fd = vi.compute_face_integrals_sym_with_data::<(), AreaCentroidIntegral>(&data);
    s.push_str(&format!(" FD {}", fd.len()));
    for f in &fd {
        s.push_str(&format!(" {} {}", crate::ser::face_header(f), fx(f.integral().area)));
    }
    for (tag, fs) in [("FS", vi.compute_face_integrals_sym::<AreaCentroidIntegral>()), ("FN", vi.compute_face_integrals::<AreaCentroidIntegral>())] {
        s.push_str(&format!(" {} {}", tag, fs.len()));
        for f in &fs {
            s.push_str(&format!(" {} {} {}", crate::ser::face_header(f), fx(f.integral().area), v3(f.integral().centroid)));
        }
    }
    if inp.dim == 3 {
        let wf = vi.with_faces();
        let v2 = Voronoi::from(&wf);
        s.push_str(&format!(" WF {}", crate::ser::voronoi(&v2)));
    }
    s
}

fn run_guarded(inp: &Input, mask: &Option<Vec<bool>>) -> String {
    let (i2, m2) = (inp.clone(), mask.clone());
    guarded(move || everything(&i2, &m2)).unwrap_or_else(|e| e)
}

#[cfg(feature = "rayon")]
fn in_pool(threads: usize, inp: &Input, mask: &Option<Vec<bool>>) -> String {
    let pool = rayon::ThreadPoolBuilder::new().num_threads(threads).build().expect("thread pool");
    pool.install(|| run_guarded(inp, mask))
}

pub fn run(out: &mut Out, rng: &mut Rng, thorough: bool) {
    let reps = if thorough { 6 } else { 1 };
    for rep in 0..reps {
        for (fam, dim, periodic, n) in [
            ("uniform", 3usize, false, 400usize),
            ("uniform", 3, true, 300),
            ("lattice", 3, true, 27),
            ("lattice_wall", 3, false, 27),
            ("uniform", 2, true, 500),
            ("on_boundary", 2, false, 60),
            ("uniform", 1, false, 200),
            ("coplanar", 3, false, 80),
            // one cell with hundreds of faces / vertices; more than a thousand generators of very uneven density
            ("void_shell", 3, false, 330),
            ("void_shell", 3, true, 280),
            ("void_shell", 2, false, 300),
            ("blob_isolated", 3, false, 1100),
            ("blob_isolated", 2, true, 1300),
        ] {
            let n = if thorough && rep % 2 == 1 { n * 8 } else { n };
            let inp = gen::make(rng, fam, dim, periodic, n);
            let mask = if fam == "blob_isolated" && rng.bool() {
                Some(gen::make_mask_local(rng, inp.gens.len()))
            } else if rng.chance(0.3) {
                Some(gen::make_mask(rng, inp.gens.len()))
            } else {
                None
            };
            let mut res;
            #[cfg(feature = "rayon")]
            {
                let base = in_pool(1, &inp, &mask);
                res = format!("CFG seq-pool1 {:016x} FULL {}", crate::ser::fingerprint(&base), base);
                let mut hashes = vec![];
                for t in [2usize, 3, 5, 8, 16, 64] {
                    hashes.push((format!("threads{}", t), crate::ser::fingerprint(&in_pool(t, &inp, &mask))));
                }
                for rpt in 0..2 {
                    hashes.push((format!("repeat{}", rpt), crate::ser::fingerprint(&in_pool(8, &inp, &mask))));
                }
                for js in [1u64, 7, 1234567] {
                    meshless_voronoi::verif_hooks::set_jitter_seed(js);
                    hashes.push((format!("jitter{}", js), crate::ser::fingerprint(&in_pool(16, &inp, &mask))));
                    meshless_voronoi::verif_hooks::set_jitter_seed(0);
                }
                hashes.push(("global-pool".to_string(), crate::ser::fingerprint(&run_guarded(&inp, &mask))));
                res.push_str(" HASHES");
                for (k, h) in hashes {
                    res.push_str(&format!(" {} {:016x}", k, h));
                }
            }
            #[cfg(not(feature = "rayon"))]
            {
                let base = run_guarded(&inp, &mask);
                res = format!("CFG no-rayon {:016x} FULL {}", crate::ser::fingerprint(&base), base);
            }
            out.rec("sched", &inp.family, &format!("{} {}", inp.tokens(), super::tess::mask_tokens(&mask)), &res);
        }
    }
}
