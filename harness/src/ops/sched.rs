//! op `sched` (C09): the same input built under many schedules.  One record per input: the full
//! serialisation of everything the property names (cells, faces in order, connectivity, integral vectors)
//! for the first configuration and an FNV fingerprint of the same serialisation for every other
//! configuration (thread counts, repeated runs, jitter seeds).  The sequential (non-rayon) harness build
//! emits the same records with a single configuration.
use crate::gen::{self, Input};
use crate::proto::{fx, guarded, v3, Out};
use crate::rng::Rng;
use meshless_voronoi::integrals::{AreaCentroidIntegral, VolumeCentroidIntegral};
use meshless_voronoi::{Voronoi, VoronoiIntegrator};

fn everything(inp: &Input, mask: &Option<Vec<bool>>) -> String {
    let direct = match mask {
        None => Voronoi::build(&inp.gens, inp.anchor, inp.width, inp.dimensionality(), inp.periodic),
        Some(m) => Voronoi::build_partial(&inp.gens, m, inp.anchor, inp.width, inp.dimensionality(), inp.periodic),
    };
    let mut s = crate::ser::voronoi(&direct);
    let vi = VoronoiIntegrator::build(&inp.gens, mask.as_deref(), inp.anchor, inp.width, inp.dimensionality(), inp.periodic);
    let ci = vi.compute_cell_integrals::<VolumeCentroidIntegral>();
    s.push_str(&format!(" CI {}", ci.len()));
    for c in &ci {
        s.push_str(&format!(" {} {}", fx(c.volume), v3(c.centroid)));
    }
    let data = vec![(); inp.gens.len()];
    let cd = vi.compute_cell_integrals_with_data::<(), VolumeCentroidIntegral>(&data);
    s.push_str(&format!(" CD {}", cd.len()));
    for c in &cd {
        s.push_str(&format!(" {}", fx(c.volume)));
    }
    let fd = vi.compute_face_integrals_sym_with_data::<(), AreaCentroidIntegral>(&data);
    s.push_str(&format!(" FD {}", fd.len()));
    for f in &fd {
        s.push_str(&format!(" {} {}", crate::ser::face_header(f), fx(f.integral().area)));
    }
    for (tag, fs) in [("FS", vi.compute_face_integrals_sym::<AreaCentroidIntegral>()), ("FN", vi.compute_face_integrals::<AreaCentroidIntegral>())] {
        s.push_str(&format!(" {} {}", tag, fs.len()));
        for f in &fs {
            s.push_str(&format!(" {} {} {}", crate::ser::face_header(f), fx(f.integral().area), v3(f.integral().centroid)));
        }
    }
    if inp.dim == 3 {
        let wf = vi.with_faces();
        let v2 = Voronoi::from(&wf);
        s.push_str(&format!(" WF {}", crate::ser::voronoi(&v2)));
    }
    s
}

fn run_guarded(inp: &Input, mask: &Option<Vec<bool>>) -> String {
    let (i2, m2) = (inp.clone(), mask.clone());
    guarded(move || everything(&i2, &m2)).unwrap_or_else(|e| e)
}

/// inputs built BEFORE the one under test in the same (fresh) pool: results must not depend on what a thread computed earlier
/// (thread-local scratch, caches keyed too coarsely, buffers that are not reset)
fn history_inputs(inp: &Input) -> Vec<(Input, Option<Vec<bool>>)> {
    use glam::DVec3;
    let mut out = vec![];
    // the same generators contracted towards generator n/2 (its position and the box stay the same): the same cell with other
    // neighbour positions behind the same plane slots; built with only that cell selected, then with all cells
    let k = inp.gens.len() / 2;
    let mut a = inp.clone();
    let c = inp.gens[k];
    for g in a.gens.iter_mut() {
        *g = c + (*g - c) * 0.5;
    }
    let mut m = vec![false; a.gens.len()];
    m[k] = true;
    out.push((a.clone(), Some(m)));
    out.push((a, None));
    // periodic builds of other dimensionalities with the same (normalised) widths
    for dim in [1usize, 2, 3] {
        if dim == inp.dim {
            continue;
        }
        let mut b = inp.clone();
        b.dim = dim;
        b.periodic = true;
        for g in b.gens.iter_mut() {
            if dim < 3 {
                g.z = 0.;
            }
            if dim < 2 {
                g.y = 0.;
            }
        }
        if dim == 3 && inp.dim < 3 {
            b.anchor.z = -0.5;
            b.width.z = 1.;
            if inp.dim < 2 {
                b.anchor.y = -0.5;
                b.width.y = 1.;
            }
            for (i, g) in b.gens.iter_mut().enumerate() {
                g.z = -0.4 + 0.8 * ((i * 7919) % 101) as f64 / 101.;
                if inp.dim < 2 {
                    g.y = -0.4 + 0.8 * ((i * 104729) % 103) as f64 / 103.;
                }
            }
        }
        b.sanitize();
        if b.gens.len() >= 2 {
            out.push((b, None));
        }
    }
    let _ = DVec3::ZERO;
    out
}

/// the cell of generator n/2 alone
fn single(inp: &Input) -> String {
    let k = inp.gens.len() / 2;
    let mut m = vec![false; inp.gens.len()];
    m[k] = true;
    run_guarded(inp, &Some(m))
}

/// the pair of builds under test: the cell of generator n/2 alone, then the build with the record's mask
fn pair(inp: &Input, mask: &Option<Vec<bool>>) -> String {
    let k = inp.gens.len() / 2;
    let mut m = vec![false; inp.gens.len()];
    m[k] = true;
    let a = run_guarded(inp, &Some(m));
    let b = run_guarded(inp, mask);
    format!("{} || {}", a, b)
}

/// the same pair after other builds on the same threads; the LAST of them is the contracted copy with only generator n/2
/// selected: the same cell position, other neighbours behind the same plane slots, immediately before the pair
fn with_history(inp: &Input, mask: &Option<Vec<bool>>) -> String {
    let mut h = history_inputs(inp);
    h.reverse();
    for (hi, hm) in h {
        let _ = run_guarded(&hi, &hm);
    }
    pair(inp, mask)
}

#[cfg(feature = "rayon")]
fn in_pool_history(threads: usize, inp: &Input, mask: &Option<Vec<bool>>) -> bool {
    let pool = rayon::ThreadPoolBuilder::new().num_threads(threads).build().expect("thread pool");
    let hist = pool.install(|| with_history(inp, mask));
    let pool2 = rayon::ThreadPoolBuilder::new().num_threads(threads).build().expect("thread pool");
    let fresh = pool2.install(|| pair(inp, mask));
    // and the other way round: the contracted copy (neighbours CLOSER behind the same plane slots) after the original
    let (contracted, _) = history_inputs(inp).remove(0);
    let pool3 = rayon::ThreadPoolBuilder::new().num_threads(threads).build().expect("thread pool");
    let hist2 = pool3.install(|| {
        let _ = pair(inp, mask);
        let _ = single(inp);
        pair(&contracted, &None)
    });
    let pool4 = rayon::ThreadPoolBuilder::new().num_threads(threads).build().expect("thread pool");
    let fresh2 = pool4.install(|| pair(&contracted, &None));
    hist == fresh && hist2 == fresh2
}

#[cfg(feature = "rayon")]
fn in_pool(threads: usize, inp: &Input, mask: &Option<Vec<bool>>) -> String {
    let pool = rayon::ThreadPoolBuilder::new().num_threads(threads).build().expect("thread pool");
    pool.install(|| run_guarded(inp, mask))
}

pub fn run(out: &mut Out, rng: &mut Rng, thorough: bool) {
    let reps = if thorough { 6 } else { 1 };
    for rep in 0..reps {
        for (fam, dim, periodic, n) in [
            ("uniform", 3usize, false, 400usize),
            ("uniform", 3, true, 300),
            ("lattice", 3, true, 27),
            ("lattice", 3, false, 27),
            ("lattice_wall", 3, false, 27),
            // more than a thousand generators with exact distance ties everywhere (work that is split by the size of the input and
            // the number of threads must not decide ties differently)
            ("lattice", 3, true, 1331),
            ("lattice", 3, false, 1331),
            ("uniform", 2, true, 500),
            ("on_boundary", 2, false, 60),
            ("uniform", 1, false, 200),
            ("coplanar", 3, false, 80),
            // one cell with hundreds of faces / vertices; more than a thousand generators of very uneven density
            ("void_shell", 3, false, 330),
            ("void_shell", 3, true, 280),
            ("void_shell", 2, false, 300),
            ("blob_isolated", 3, false, 1100),
            ("blob_isolated", 2, true, 1300),
        ] {
            let n = if thorough && rep % 2 == 1 { n * 8 } else { n };
            let mut inp = gen::make(rng, fam, dim, periodic, n);
            if fam == "lattice" && dim == 3 {
                // an EXACT 3 x 3 x 3 lattice (dyadic spacing 1/4) around the centre of the unit cube: every vertex decision of the
                // central cell is an exact tie; the contracted copy used as build history has spacing 1/8
                use glam::DVec3;
                let mut gens = vec![];
                let (m, h) = if n >= 1000 { (11i32, 1. / 16.) } else { (3i32, 0.25) };
                for i in 0..m {
                    for j in 0..m {
                        for k in 0..m {
                            gens.push(DVec3::splat(0.5) + DVec3::new((i - m / 2) as f64, (j - m / 2) as f64, (k - m / 2) as f64) * h);
                        }
                    }
                }
                inp = Input { family: format!("lattice3{}_unit_exact{}", if periodic { "p" } else { "r" }, if m > 3 { "11" } else { "" }), dim: 3, periodic, anchor: DVec3::ZERO, width: DVec3::ONE, gens };
            }
            let mask = if fam == "blob_isolated" && rng.bool() {
                Some(gen::make_mask_local(rng, inp.gens.len()))
            } else if rng.chance(0.3) {
                Some(gen::make_mask(rng, inp.gens.len()))
            } else {
                None
            };
            let mut res;
            #[cfg(feature = "rayon")]
            {
                let base = in_pool(1, &inp, &mask);
                res = format!("CFG seq-pool1 {:016x} FULL {}", crate::ser::fingerprint(&base), base);
                let mut hashes = vec![];
                for t in [2usize, 3, 5, 8, 16, 64] {
                    hashes.push((format!("threads{}", t), crate::ser::fingerprint(&in_pool(t, &inp, &mask))));
                }
                for rpt in 0..2 {
                    hashes.push((format!("repeat{}", rpt), crate::ser::fingerprint(&in_pool(8, &inp, &mask))));
                }
                for js in [1u64, 7, 1234567] {
                    meshless_voronoi::verif_hooks::set_jitter_seed(js);
                    hashes.push((format!("jitter{}", js), crate::ser::fingerprint(&in_pool(16, &inp, &mask))));
                    meshless_voronoi::verif_hooks::set_jitter_seed(0);
                }
                hashes.push(("global-pool".to_string(), crate::ser::fingerprint(&run_guarded(&inp, &mask))));
                for t in [1usize, 3] {
                    // reported as the base fingerprint when the pair of builds is bitwise the same after other builds as in a fresh pool
                    let same = in_pool_history(t, &inp, &mask);
                    hashes.push((format!("after-other-builds-threads{}", t), if same { crate::ser::fingerprint(&base) } else { 0xdead }));
                }
                res.push_str(" HASHES");
                for (k, h) in hashes {
                    res.push_str(&format!(" {} {:016x}", k, h));
                }
            }
            #[cfg(not(feature = "rayon"))]
            {
                // fresh threads: thread-local state of the library starts empty in each
                let (i1, m1) = (inp.clone(), mask.clone());
                let base = std::thread::spawn(move || run_guarded(&i1, &m1)).join().unwrap_or_else(|_| "PANIC thread".to_string());
                let (i2, m2) = (inp.clone(), mask.clone());
                let hist = std::thread::spawn(move || with_history(&i2, &m2)).join().unwrap_or_else(|_| "PANIC thread".to_string());
                let (i3, m3) = (inp.clone(), mask.clone());
                let fresh = std::thread::spawn(move || pair(&i3, &m3)).join().unwrap_or_else(|_| "PANIC thread".to_string());
                let (contracted, _) = history_inputs(&inp).remove(0);
                let (i4, m4, c4) = (inp.clone(), mask.clone(), contracted.clone());
                let hist2 = std::thread::spawn(move || {
                    let _ = pair(&i4, &m4);
                    let _ = single(&i4);
                    pair(&c4, &None)
                })
                .join()
                .unwrap_or_else(|_| "PANIC thread".to_string());
                let c5 = contracted.clone();
                let fresh2 = std::thread::spawn(move || pair(&c5, &None)).join().unwrap_or_else(|_| "PANIC thread".to_string());
                let (hist, fresh) = (format!("{}{}", hist, hist2), format!("{}{}", fresh, fresh2));
                res = format!("CFG no-rayon {:016x} FULL {}", crate::ser::fingerprint(&base), base);
                res.push_str(&format!(" HASHES after-other-builds {:016x}", if hist == fresh { crate::ser::fingerprint(&base) } else { 0xdead }));
            }
            out.rec("sched", &inp.family, &format!("{} {}", inp.tokens(), super::tess::mask_tokens(&mask)), &res);
        }
    }
}
