//! ops `periodic3` and `translate` (C06).
//!
//! `periodic3`: the periodic tessellation of G next to the non-periodic tessellation of the 3^d-fold
//! replicated set in the tripled box, restricted to the central block and re-labelled
//! (neighbour = original index, shift = which copy).
//! `translate`: the periodic tessellation before and after translating every generator by the same vector
//! (wrapped back into the box).
use crate::gen::{self, Input};
use crate::proto::{fx, guarded, opt_usize, v3, Out};
use crate::rng::Rng;
use glam::DVec3;
use meshless_voronoi::integrals::{AreaCentroidIntegral, VolumeCentroidIntegral};
use meshless_voronoi::VoronoiIntegrator;

/// all faces of every cell, seen from that cell: `NC n {C idx vol centroid NF k {right|- shift(N|S xyz) area centroid}}`
fn per_cell(inp: &Input) -> String {
    let vi = VoronoiIntegrator::build(&inp.gens, None, inp.anchor, inp.width, inp.dimensionality(), inp.periodic);
    let mut s = format!("NC {}", vi.cells_iter().count());
    for cell in vi.cells_iter() {
        let vc = cell.compute_cell_integral::<(), VolumeCentroidIntegral>(());
        let faces = cell.compute_face_integrals::<(), AreaCentroidIntegral>(());
        s.push_str(&format!(" C {} {} {} NF {}", cell.idx, fx(vc.volume), v3(vc.centroid), faces.len()));
        for f in &faces {
            s.push_str(&format!(" {} {} {} {}", opt_usize(f.right()), crate::proto::opt_v3(f.shift()), fx(f.integral().area), v3(f.integral().centroid)));
        }
    }
    s
}

/// the same record from the direct `Voronoi::build`: faces are stored once; seen from the right cell the neighbour is the left
/// generator, the shift is reversed and the centroid moves with it
fn per_cell_direct(inp: &Input) -> String {
    let v = meshless_voronoi::Voronoi::build(&inp.gens, inp.anchor, inp.width, inp.dimensionality(), inp.periodic);
    let mut s = format!("NC {}", v.cells().len());
    for (i, cell) in v.cells().iter().enumerate() {
        let faces: Vec<_> = cell.faces(&v).collect();
        s.push_str(&format!(" C {} {} {} NF {}", i, fx(cell.volume()), v3(cell.centroid()), faces.len()));
        for f in faces {
            if f.left() == i {
                s.push_str(&format!(" {} {} {} {}", opt_usize(f.right()), crate::proto::opt_v3(f.shift()), fx(f.area()), v3(f.centroid())));
            } else {
                let sh = f.shift();
                let cen = f.centroid() - sh.unwrap_or(DVec3::ZERO);
                s.push_str(&format!(" {} {} {} {}", f.left(), crate::proto::opt_v3(sh.map(|x| -x)), fx(f.area()), v3(cen)));
            }
        }
    }
    s
}

fn shifts(dim: usize) -> Vec<[i32; 3]> {
    let r = [-1, 0, 1];
    let mut v = vec![];
    for i in r {
        for j in if dim >= 2 { &r[..] } else { &[0][..] } {
            for k in if dim >= 3 { &r[..] } else { &[0][..] } {
                v.push([i, *j, *k]);
            }
        }
    }
    v
}

pub fn run_periodic3(out: &mut Out, rng: &mut Rng, thorough: bool) {
    let reps = if thorough { 10 } else { 2 };
    // (family, dim) pairs: all families in all dimensions, plus many generic 3D inputs large enough for a deep r-tree
    let mut plan: Vec<(&str, usize)> = vec![];
    for _ in 0..reps {
        for fam in ["uniform", "lattice", "cluster", "on_boundary", "pair", "single", "coplanar", "lattice_wall"] {
            for dim in [3usize, 2, 1] {
                plan.push((fam, dim));
            }
        }
    }
    for _ in 0..(if thorough { 100 } else { 24 }) {
        plan.push(("uniform", 3));
    }
    // very uneven density (heuristics that assume a mean separation, pruning by distance): clumps, blobs with isolated generators, voids
    for _ in 0..(if thorough { 12 } else { 3 }) {
        plan.push(("clump", 3));
        plan.push(("clump", 2));
    }
    for dim in [3usize, 2, 1] {
        plan.push(("blob_isolated", dim));
        plan.push(("void_shell", dim));
    }
    {
        {
            for (fam, dim) in plan {
                // implementation vs implementation: sizes are not limited by the exact oracle; n >= 7 gives the r-tree inner nodes
                let n = match dim {
                    _ if fam == "blob_isolated" || fam == "void_shell" => [0usize, 60, 120, 230][dim] + rng.below(60) as usize,
                    3 => 1 + rng.below(if thorough { 120 } else { 60 }) as usize,
                    2 => 1 + rng.below(if thorough { 200 } else { 60 }) as usize,
                    _ => 1 + rng.below(if thorough { 300 } else { 60 }) as usize,
                };
                let inp = gen::make(rng, fam, dim, true, n);
                // the replicated, non-periodic problem: copy (s, i) has index s_index * n + i
                let sh = shifts(dim);
                let ng = inp.gens.len();
                let mut rep = inp.clone();
                rep.periodic = false;
                rep.gens.clear();
                for s in &sh {
                    for g in &inp.gens {
                        rep.gens.push(*g + DVec3::new(s[0] as f64 * inp.width.x, s[1] as f64 * inp.width.y, s[2] as f64 * inp.width.z));
                    }
                }
                for a in 0..dim {
                    rep.anchor[a] = inp.anchor[a] - inp.width[a];
                    rep.width[a] = 3. * inp.width[a];
                }
                let central = sh.iter().position(|s| *s == [0, 0, 0]).unwrap();
                let inp2 = inp.clone();
                let p = guarded(move || per_cell(&inp2)).unwrap_or_else(|e| e);
                let rep2 = rep.clone();
                let r = guarded(move || per_cell(&rep2)).unwrap_or_else(|e| e);
                let inp3 = inp.clone();
                let d = guarded(move || per_cell_direct(&inp3)).unwrap_or_else(|e| e);
                out.rec(
                    "periodic3",
                    &inp.family,
                    &format!("{} REP {} {} {}", inp.tokens(), ng, central, sh.iter().map(|s| format!("{},{},{}", s[0], s[1], s[2])).collect::<Vec<_>>().join(";")),
                    &format!("P {} R {} D {}", p, r, d),
                );
            }
        }
    }
}

pub fn run_translate(out: &mut Out, rng: &mut Rng, thorough: bool) {
    let reps = if thorough { 10 } else { 2 };
    for _ in 0..reps {
        for fam in ["uniform", "lattice", "cluster", "pair", "single", "coplanar"] {
            for dim in [3usize, 2, 1] {
                let n = 1 + rng.below(if dim == 3 { 10 } else { 20 }) as usize;
                let inp = gen::make(rng, fam, dim, true, n);
                // translation: random, or one that puts generator 0 exactly on the lower wall of some axes
                let mut t = DVec3::new(rng.f64() - 0.5, rng.f64() - 0.5, rng.f64() - 0.5) * inp.width * 2.;
                let adversarial = rng.chance(0.4);
                if adversarial {
                    for a in 0..dim {
                        if rng.bool() {
                            t[a] = inp.anchor[a] - inp.gens[0][a];
                        }
                    }
                }
                for a in dim..3 {
                    t[a] = 0.;
                }
                let mut tr = inp.clone();
                for g in tr.gens.iter_mut() {
                    for a in 0..dim {
                        let mut x = g[a] + t[a];
                        let (lo, w) = (inp.anchor[a], inp.width[a]);
                        while x >= lo + w {
                            x -= w;
                        }
                        while x < lo {
                            x += w;
                        }
                        if !(x >= lo && x <= lo + w) {
                            x = lo;
                        }
                        g[a] = x;
                    }
                }
                let inp2 = inp.clone();
                let p = guarded(move || per_cell(&inp2)).unwrap_or_else(|e| e);
                let tr2 = tr.clone();
                let q = guarded(move || per_cell(&tr2)).unwrap_or_else(|e| e);
                out.rec(
                    "translate",
                    &format!("{}_{}", inp.family, if adversarial { "wall" } else { "rand" }),
                    &format!("{} T {} TR {}", inp.tokens(), v3(t), tr.tokens()),
                    &format!("P {} Q {}", p, q),
                );
            }
        }
    }
}
