//! Input families shared by the ops. All randomness from `Rng`.
use crate::rng::Rng;
use glam::DVec3;
use meshless_voronoi::Dimensionality;

#[derive(Clone)]
pub struct Input {
    pub family: String,
    pub dim: usize,
    pub periodic: bool,
    pub anchor: DVec3,
    pub width: DVec3,
    pub gens: Vec<DVec3>,
}

impl Input {
    pub fn dimensionality(&self) -> Dimensionality {
        match self.dim {
            1 => Dimensionality::OneD,
            2 => Dimensionality::TwoD,
            _ => Dimensionality::ThreeD,
        }
    }
    /// `dim periodic anchor width n gens...` as protocol tokens
    pub fn tokens(&self) -> String {
        use crate::proto::v3;
        let mut s = format!("{} {} {} {} {}", self.dim, self.periodic as u8, v3(self.anchor), v3(self.width), self.gens.len());
        for g in &self.gens {
            s.push(' ');
            s.push_str(&v3(*g));
        }
        s
    }
    /// drop duplicates (after projection, modulo the period when periodic) and points outside the closed box
    pub fn sanitize(&mut self) {
        let dim = self.dim;
        let a = self.anchor;
        let w = self.width;
        let per = self.periodic;
        let key = |g: &DVec3| -> [u64; 3] {
            let mut k = [0u64; 3];
            for i in 0..dim {
                let mut x = g[i];
                if per && x == a[i] + w[i] {
                    x = a[i];
                }
                k[i] = (x + 0.0).to_bits();
            }
            k
        };
        let mut seen = std::collections::HashSet::new();
        let mut out = vec![];
        for g in &self.gens {
            let mut ok = true;
            for i in 0..dim {
                if !(g[i] >= a[i] && g[i] <= a[i] + w[i]) || !g[i].is_finite() {
                    ok = false;
                }
            }
            if ok && seen.insert(key(g)) {
                out.push(*g);
            }
        }
        self.gens = out;
    }
}

fn lerp(a: DVec3, w: DVec3, t: DVec3) -> DVec3 {
    (a + w * t).clamp(a, a + w)
}

fn rand_unit(rng: &mut Rng) -> DVec3 {
    DVec3::new(rng.f64(), rng.f64(), rng.f64())
}

/// garbage for unused coordinates
fn garbage(rng: &mut Rng) -> f64 {
    match rng.below(5) {
        0 => 0.0,
        1 => 1e9 * (rng.f64() - 0.5),
        2 => -3.25,
        3 => 1e-30,
        _ => rng.f64(),
    }
}

pub fn random_box(rng: &mut Rng) -> (DVec3, DVec3, &'static str) {
    match rng.below(8) {
        6 => {
            // small absolute units (a nanometre-scale box expressed in metres)
            let sc = [1e-6, 1e-7, 1e-9, 1e-12][rng.below(4) as usize];
            (DVec3::new(0.5, -1.0, 0.25) * sc, DVec3::new(1.0, 1.5, 0.75) * sc, "tiny")
        }
        7 => (DVec3::new(-2e5, 1e5, 0.0), DVec3::new(3e5, 1e5, 2e5), "huge"),
        0 => (DVec3::ZERO, DVec3::ONE, "unit"),
        1 => (DVec3::splat(1.0), DVec3::splat(2.0), "cube12"),
        2 => {
            // anisotropic, aspect up to 1:100
            let w = DVec3::new(1.0, 1.0 + 99.0 * rng.f64(), 0.01 + rng.f64());
            (DVec3::new(-0.3, 2.0, 0.1), w, "aniso")
        }
        3 => {
            // large offset
            let off = 1e3 * (1.0 + rng.f64() * 1e3);
            (DVec3::new(off, -off, off * 0.5), DVec3::new(1.0 + rng.f64(), 2.0, 0.5 + rng.f64()), "offset")
        }
        4 => (DVec3::new(-1.0, -2.0, -3.0), DVec3::new(2.0, 4.0, 6.0), "neg"),
        _ => (DVec3::new(rng.f64(), rng.f64(), rng.f64()), DVec3::new(0.5 + rng.f64(), 0.5 + rng.f64(), 0.5 + rng.f64()), "randbox"),
    }
}

/// One input of the given family. `n` is a size hint.
pub fn make(rng: &mut Rng, family: &str, dim: usize, periodic: bool, n: usize) -> Input {
    let (mut anchor, mut width, mut boxname) = random_box(rng);
    if family == "shallow_edge" {
        // isotropic boxes only: the angle between the two bisector planes is what matters
        (anchor, width, boxname) = match rng.below(3) {
            0 => (DVec3::ZERO, DVec3::ONE, "unit"),
            1 => (DVec3::splat(1.0), DVec3::splat(2.0), "cube12"),
            _ => (DVec3::splat(-2e-7), DVec3::splat(1e-6), "tinycube"),
        };
    }
    if family == "clump" && rng.bool() {
        // cubic boxes: the periodic images across the body diagonal are the farthest true neighbours a cell can have
        (anchor, width, boxname) = if rng.bool() { (DVec3::ZERO, DVec3::ONE, "unit") } else { (DVec3::splat(1.0), DVec3::splat(2.0), "cube12") };
    }
    let n = if family == "clump" { n.max(8) } else { n };
    let mut gens: Vec<DVec3> = vec![];
    match family {
        "uniform" => {
            for _ in 0..n {
                gens.push(lerp(anchor, width, rand_unit(rng)));
            }
        }
        "cluster" => {
            // clusters whose diameter is 1e-3 .. 1e-12 of the box
            let scale = 10f64.powi(-(3 + rng.below(10) as i32));
            let c = rand_unit(rng) * 0.8 + DVec3::splat(0.1);
            let k = n / 2 + 1;
            for _ in 0..k {
                gens.push(lerp(anchor, width, c + (rand_unit(rng) - DVec3::splat(0.5)) * scale));
            }
            for _ in k..n {
                gens.push(lerp(anchor, width, rand_unit(rng)));
            }
        }
        "lattice" => {
            // exact or nearly exact lattice, perturbation 0 .. 1e-6
            let m = if dim == 3 { 2 + rng.below(2) as usize } else if dim == 2 { 2 + rng.below(3) as usize } else { 2 + rng.below(6) as usize };
            let pert = [0.0, 0.0, 1e-15, 1e-12, 1e-9, 1e-6][rng.below(6) as usize];
            let ny = if dim >= 2 { m } else { 1 };
            let nz = if dim >= 3 { m } else { 1 };
            for i in 0..m {
                for j in 0..ny {
                    for k in 0..nz {
                        let t = DVec3::new((i as f64 + 0.5) / m as f64, (j as f64 + 0.5) / ny as f64, (k as f64 + 0.5) / nz as f64);
                        let p = (rand_unit(rng) - DVec3::splat(0.5)) * pert;
                        gens.push(lerp(anchor, width, t + p));
                    }
                }
            }
        }
        "lattice_wall" => {
            // lattice including points exactly on the walls (both walls when not periodic)
            let m = 2 + rng.below(2) as usize;
            let ny = if dim >= 2 { m } else { 1 };
            let nz = if dim >= 3 { m } else { 1 };
            let last = if periodic { m } else { m + 1 };
            for i in 0..last {
                for j in 0..(if dim >= 2 { last } else { 1 }) {
                    for k in 0..(if dim >= 3 { last } else { 1 }) {
                        let t = DVec3::new(i as f64 / m as f64, j as f64 / ny.max(1) as f64, k as f64 / nz.max(1) as f64);
                        gens.push(lerp(anchor, width, t));
                    }
                }
            }
        }
        "on_boundary" => {
            // generators exactly on faces, edges, corners of the box (+ a few interior)
            for _ in 0..n {
                let mut t = rand_unit(rng);
                let kind = rng.below(4);
                let naxes = match kind {
                    0 => 1,
                    1 => 2,
                    2 => 3,
                    _ => 0,
                };
                let mut axes = [0usize, 1, 2];
                rng.shuffle(&mut axes);
                for &ax in axes.iter().take(naxes) {
                    t[ax] = if rng.bool() && !periodic { 1.0 } else { 0.0 };
                }
                let mut p = anchor + width * t;
                for ax in 0..3 {
                    if t[ax] == 0.0 {
                        p[ax] = anchor[ax];
                    }
                    if t[ax] == 1.0 {
                        p[ax] = anchor[ax] + width[ax];
                    }
                }
                gens.push(p);
            }
        }
        "collinear" => {
            let p0 = rand_unit(rng) * 0.3 + DVec3::splat(0.1);
            let dir = if rng.bool() { DVec3::new(1.0, 0.0, 0.0) } else { DVec3::new(0.5, 0.25, 0.125) };
            for i in 0..n {
                gens.push(lerp(anchor, width, p0 + dir * (i as f64) / (n as f64) * 0.5));
            }
        }
        "coplanar" => {
            let z = 0.25 + 0.5 * rng.f64();
            for _ in 0..n {
                let mut t = rand_unit(rng);
                t.z = z;
                gens.push(lerp(anchor, width, t));
            }
        }
        "cospherical" => {
            // points on a common sphere / circle (in box units), rounded to floats
            let r = 0.3;
            for _ in 0..n {
                let mut v = rand_unit(rng) - DVec3::splat(0.5);
                if dim < 3 {
                    v.z = 0.0;
                }
                if dim < 2 {
                    v.y = 0.0;
                }
                let v = v.normalize();
                let wmin = width.min_element();
                gens.push(anchor + width * 0.5 + v * r * wmin);
            }
        }
        "cospherical_lattice" => {
            // exactly co-spherical: sign permutations of (a,b,c)/8 around the centre
            let c = anchor + width * 0.5;
            let s = width.min_element() / 16.0;
            let (a, b, cc) = (1.0 + rng.below(3) as f64, 1.0 + rng.below(3) as f64, 1.0 + rng.below(3) as f64);
            for sx in [-1.0, 1.0] {
                for sy in [-1.0, 1.0] {
                    for sz in [-1.0, 1.0] {
                        gens.push(c + DVec3::new(sx * a, sy * b, sz * cc) * s);
                        gens.push(c + DVec3::new(sx * b, sy * cc, sz * a) * s);
                    }
                }
            }
            rng.shuffle(&mut gens);
            gens.truncate(n.max(5));
        }
        "pythagorean" => {
            // exactly co-spherical (co-circular in 2D) points that are NOT related by the axis symmetries of a lattice:
            // integer vectors of equal length (3,4,0) (5,0,0) / (1,2,2) (3,0,0) / (2,3,6) (7,0,0) with all permutations and signs,
            // scaled by a power of two and centred on a point of the same dyadic grid, so that every coordinate is exact
            let base: &[[i64; 3]] = match rng.below(3) {
                0 => &[[3, 4, 0], [5, 0, 0]],
                1 => &[[1, 2, 2], [3, 0, 0]],
                _ => &[[2, 3, 6], [7, 0, 0]],
            };
            let r = (base[0].iter().map(|x| x * x).sum::<i64>() as f64).sqrt();
            let mut cand: Vec<DVec3> = vec![];
            for b in base {
                let perms = [[0usize, 1, 2], [1, 2, 0], [2, 0, 1], [0, 2, 1], [1, 0, 2], [2, 1, 0]];
                for pm in perms {
                    for sg in 0..8 {
                        let v = DVec3::new(
                            b[pm[0]] as f64 * if sg & 1 == 0 { 1. } else { -1. },
                            b[pm[1]] as f64 * if sg & 2 == 0 { 1. } else { -1. },
                            b[pm[2]] as f64 * if sg & 4 == 0 { 1. } else { -1. },
                        );
                        let keep = (dim >= 3 || v.z == 0.) && (dim >= 2 || v.y == 0.);
                        if keep && !cand.contains(&v) {
                            cand.push(v);
                        }
                    }
                }
            }
            rng.shuffle(&mut cand);
            cand.truncate(n.max(4));
            // scale: radius ~ 1/4 of the smallest active extent, rounded down to a power of two
            let mut wmin = width.x;
            if dim >= 2 {
                wmin = wmin.min(width.y);
            }
            if dim >= 3 {
                wmin = wmin.min(width.z);
            }
            let sc = 2f64.powi((0.25 * wmin / r).log2().floor() as i32);
            let c0 = anchor + width * 0.5;
            let c = DVec3::new((c0.x / sc).round() * sc, (c0.y / sc).round() * sc, (c0.z / sc).round() * sc);
            for v in cand {
                gens.push(c + v * sc);
            }
            if rng.bool() {
                gens.push(c); // the common centre: all its neighbours are exactly equidistant
            }
        }
        "single" => gens.push(lerp(anchor, width, rand_unit(rng))),
        "pair" => {
            gens.push(lerp(anchor, width, rand_unit(rng)));
            gens.push(lerp(anchor, width, rand_unit(rng)));
        }
        // two neighbours of generator 0 that are only 1e-6 … 8e-6 box units apart, 0.4 box units away from it: their bisector
        // planes meet in an edge at a very shallow angle (1e-5 rad), far from the foot point of the generator; 2 further generators
        "shallow_edge" => {
            let g = DVec3::new(0.3 + 0.1 * rng.f64(), 0.45 + 0.1 * rng.f64(), 0.45 + 0.1 * rng.f64());
            let u = DVec3::new(1.0, 0.2 * (rng.f64() - 0.5), 0.2 * (rng.f64() - 0.5)).normalize();
            let mut v = DVec3::new(0.0, rng.f64() - 0.5, rng.f64() - 0.5);
            if dim < 3 {
                v = DVec3::new(0.0, 1.0, 0.0);
            }
            let v = (v - u * v.dot(u)).normalize();
            let delta = 1e-6 * (0.5 + 3.0 * rng.f64());
            gens.push(lerp(anchor, width, g));
            gens.push(lerp(anchor, width, g + u * 0.4));
            gens.push(lerp(anchor, width, g + u * 0.4 + v * delta));
            for _ in 0..n.saturating_sub(3).min(2) {
                gens.push(lerp(anchor, width, rand_unit(rng)));
            }
        }
        // all generators in one clump of 4 … 16 % of the box: with periodic boundaries every cell is bounded by far images of the
        // clump (up to the body diagonal of the box away), in a reflective box by the walls
        "clump" => {
            let size = 0.04 + 0.12 * rng.f64();
            let c = DVec3::new(0.1 + 0.8 * rng.f64(), 0.1 + 0.8 * rng.f64(), 0.1 + 0.8 * rng.f64());
            for _ in 0..n {
                gens.push(lerp(anchor, width, c + (rand_unit(rng) - 0.5) * size));
            }
        }
        // strongly non-uniform density: a dense blob of n-8 generators in one corner region and 8 isolated generators far away
        // (their cells reach across most of the box; size thresholds and locality heuristics meet their worst case here).
        // The isolated generators come LAST (see `make_mask_local`).
        "blob_isolated" => {
            let c = DVec3::new(0.12 + 0.1 * rng.f64(), 0.12 + 0.1 * rng.f64(), 0.12 + 0.1 * rng.f64());
            for _ in 0..n.saturating_sub(8) {
                gens.push(lerp(anchor, width, c + (rand_unit(rng) - 0.5) * 0.12));
            }
            for k in 0..8 {
                let t = DVec3::new(
                    if k & 1 == 0 { 0.55 } else { 0.92 } + 0.05 * rng.f64(),
                    if k & 2 == 0 { 0.5 } else { 0.9 } + 0.05 * rng.f64(),
                    if k & 4 == 0 { 0.45 } else { 0.88 } + 0.05 * rng.f64(),
                );
                gens.push(lerp(anchor, width, t));
            }
        }
        // one generator in a void surrounded by a dense shell (sphere in 3D, circle in 2D, two flanks in 1D): its cell has about
        // n faces and 2n vertices -- far beyond anything uniform points produce. The central generator comes FIRST.
        "void_shell" => {
            let c = DVec3::splat(0.5);
            gens.push(lerp(anchor, width, c));
            for _ in 0..n.saturating_sub(1) {
                let mut d = rand_unit(rng) - 0.5;
                if dim < 3 {
                    d.z = 0.;
                }
                if dim < 2 {
                    d.y = 0.;
                }
                if d.length_squared() == 0. {
                    continue;
                }
                let r = 0.3 * (1.0 + 0.02 * rng.f64());
                gens.push(lerp(anchor, width, c + d.normalize() * r));
            }
        }
        _ => panic!("unknown family {}", family),
    }
    // unused coordinates: zero or garbage
    let garb = rng.bool();
    let mut anchor = anchor;
    let mut width = width;
    if dim < 3 {
        for g in gens.iter_mut() {
            g.z = if garb { garbage(rng) } else { 0.0 };
            if dim < 2 {
                g.y = if garb { garbage(rng) } else { 0.0 };
            }
        }
        if garb {
            anchor.z = garbage(rng);
            width.z = garbage(rng).abs() + 0.5;
            if dim < 2 {
                anchor.y = garbage(rng);
                width.y = garbage(rng).abs() + 0.5;
            }
        }
    }
    let mut inp = Input {
        family: format!("{}{}{}_{}_{}", family, dim, if periodic { "p" } else { "r" }, boxname, if dim < 3 && garb { "garb" } else { "z" }),
        dim,
        periodic,
        anchor,
        width,
        gens,
    };
    inp.sanitize();
    if inp.gens.is_empty() {
        inp.gens.push(anchor + width * 0.5);
    }
    inp
}

pub const FAMILIES: &[&str] = &[
    "uniform", "cluster", "lattice", "lattice_wall", "on_boundary", "collinear", "coplanar", "cospherical", "cospherical_lattice", "pythagorean", "single", "pair", "clump",
];

/// localised masks for `blob_isolated`: some of the isolated generators (the last 8), optionally a handful of blob members
pub fn make_mask_local(rng: &mut Rng, n: usize) -> Vec<bool> {
    let mut m = vec![false; n];
    for k in 0..8.min(n) {
        if rng.chance(0.6) {
            m[n - 1 - k] = true;
        }
    }
    m[n - 1 - rng.below(8.min(n) as u64) as usize] = true;
    if rng.bool() {
        for _ in 0..5 {
            m[rng.below(n as u64) as usize] = true;
        }
    }
    m
}

/// random mask kinds: all / none / single / random
pub fn make_mask(rng: &mut Rng, n: usize) -> Vec<bool> {
    match rng.below(5) {
        0 => vec![true; n],
        1 => vec![false; n],
        2 => {
            let mut m = vec![false; n];
            m[rng.below(n as u64) as usize] = true;
            m
        }
        _ => (0..n).map(|_| rng.bool()).collect(),
    }
}
